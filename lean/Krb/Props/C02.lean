/-
  C02 — An authenticator is accepted at most once while it remains acceptable.

    * `present_holds`, `holds_present_other`, `holds_cleanup`, `present_replay_of_holds`
                      : the one-step facts
    * `once`          : after any presentation of (client, ctime, service), every later presentation
                        of the same triple is flagged as a replay, whatever other presentations and
                        clean-ups happen in between, as long as no clean-up ran at a time when the
                        timestamp had already left its skew window
    * `once_window`   : with non-decreasing clock readings and clean-ups using the skew d, "still
                        passes the skew check at the later presentation" is enough
    * `exact`         : a replay verdict always has an earlier presentation of the same triple as its
                        cause (authenticators differing in client, timestamp or service are never
                        mistaken for each other)
    * `concurrent_once` : n concurrent presentations of one authenticator, each an atomic
                        check-and-addSvc, under ANY order of lock acquisition: exactly the first is
                        accepted
    * `atomic_facts` (T) : the lock shape extracted from the current cache.go — IsReplay touches the
                        cache inside exactly one write-locked section
    * `v0_double_accept` : the unrepaired four-section code accepts twice under a concrete schedule
-/
import Krb.Model.Replay
import Krb.Gen.CacheShape
namespace Krb.C02

open Krb Krb.Replay

/-! ## one-step facts -/

theorem holds_iff (c : Cache) (cl : Nat) (ct : Int) (svc : Nat) :
    holds c cl ct svc = true ↔ ∃ e ∈ c, e.client = cl ∧ e.ctime = ct ∧ svc ∈ e.services := by
  simp [holds]

theorem holds_addSvc_self (c : Cache) (cl : Nat) (ct : Int) (svc : Nat) :
    holds (addSvc c cl ct svc) cl ct svc = true := by
  rw [holds_iff]
  induction c with
  | nil => exact ⟨{ client := cl, ctime := ct, services := [svc] }, by simp [addSvc], rfl, rfl, by simp⟩
  | cons e rest ih =>
    simp only [addSvc]
    by_cases hk : e.client = cl ∧ e.ctime = ct
    · rw [if_pos hk]
      exact ⟨{ e with services := e.services ++ [svc] }, by simp, hk.1, hk.2, by simp⟩
    · rw [if_neg hk]
      obtain ⟨x, hx, hp⟩ := ih
      exact ⟨x, by simp [hx], hp⟩

theorem holds_addSvc_mono (c : Cache) (cl cl' : Nat) (ct ct' : Int) (svc svc' : Nat)
    (h : holds c cl ct svc = true) : holds (addSvc c cl' ct' svc') cl ct svc = true := by
  rw [holds_iff] at h ⊢
  induction c with
  | nil => obtain ⟨e, he, _⟩ := h; simp at he
  | cons e rest ih =>
    obtain ⟨x, hx, hp⟩ := h
    simp only [addSvc]
    simp only [List.mem_cons] at hx
    by_cases hk : e.client = cl' ∧ e.ctime = ct'
    · rw [if_pos hk]
      cases hx with
      | inl hx1 =>
        subst hx1
        exact ⟨{ x with services := x.services ++ [svc'] }, by simp, hp.1, hp.2.1, by simp [hp.2.2]⟩
      | inr hx2 => exact ⟨x, by simp [hx2], hp⟩
    · rw [if_neg hk]
      cases hx with
      | inl hx1 => subst hx1; exact ⟨x, by simp, hp⟩
      | inr hx2 =>
        obtain ⟨y, hy, hq⟩ := ih ⟨x, hx2, hp⟩
        exact ⟨y, by simp [hy], hq⟩

/-- **present_holds.** after a presentation (accepted or flagged) the triple is in the cache -/
theorem present_holds (c : Cache) (cl : Nat) (ct : Int) (svc : Nat) :
    holds (present c cl ct svc).1 cl ct svc = true := by
  unfold present
  by_cases h : holds c cl ct svc = true
  · simp [h]
  · simp [h, holds_addSvc_self]

/-- **holds_present_other.** other presentations never remove anything -/
theorem holds_present_other (c : Cache) (cl cl' : Nat) (ct ct' : Int) (svc svc' : Nat)
    (h : holds c cl ct svc = true) : holds (present c cl' ct' svc').1 cl ct svc = true := by
  unfold present
  by_cases h' : holds c cl' ct' svc' = true
  · simp [h', h]
  · simp [h', holds_addSvc_mono c cl cl' ct ct' svc svc' h]

/-- **holds_cleanup.** a clean-up keeps every entry whose client time is still inside the window -/
theorem holds_cleanup (c : Cache) (cl : Nat) (ct : Int) (svc : Nat) (now d : Int)
    (hw : ¬ (now - ct > d)) (h : holds c cl ct svc = true) :
    holds (cleanup c now d) cl ct svc = true := by
  rw [holds_iff] at h ⊢
  obtain ⟨e, he, hp⟩ := h
  refine ⟨e, ?_, hp⟩
  simp only [cleanup, List.mem_filter, decide_eq_true_eq]
  exact ⟨he, by rw [hp.2.1]; exact hw⟩

/-- **present_replay_of_holds.** -/
theorem present_replay_of_holds (c : Cache) (cl : Nat) (ct : Int) (svc : Nat)
    (h : holds c cl ct svc = true) : (present c cl ct svc).2 = true := by
  simp [present, h]

/-! ## histories -/

/-- a clean-up does not purge the triple's timestamp -/
def Keeps (ct : Int) : Op → Prop
  | .present _ _ _ => True
  | .cleanup now d => ¬ (now - ct > d)

theorem holds_run (c : Cache) (ops : List Op) (cl : Nat) (ct : Int) (svc : Nat)
    (hk : ∀ op ∈ ops, Keeps ct op) (h : holds c cl ct svc = true) :
    holds (run c ops).1 cl ct svc = true := by
  induction ops generalizing c with
  | nil => simpa [run] using h
  | cons op ops ih =>
    simp only [run]
    have hk' : ∀ op' ∈ ops, Keeps ct op' := fun o ho => hk o (by simp [ho])
    cases op with
    | present cl' ct' svc' =>
      simp only [step]
      exact ih _ hk' (holds_present_other c cl cl' ct ct' svc svc' h)
    | cleanup now d =>
      simp only [step]
      have := hk (.cleanup now d) (by simp)
      exact ih _ hk' (holds_cleanup c cl ct svc now d this h)

theorem run_append (c : Cache) (a b : List Op) :
    run c (a ++ b) = ((run (run c a).1 b).1, (run c a).2 ++ (run (run c a).1 b).2) := by
  induction a generalizing c with
  | nil => simp [run]
  | cons op a ih => simp only [List.cons_append, run, ih]

/-- **C02 once.** For every history `pre ++ [present t] ++ mid ++ [present t]` from any cache: if no
    clean-up in `mid` runs when the timestamp is outside its window, the final presentation is flagged
    as a replay (the other results are whatever they are). -/
theorem once (c : Cache) (pre mid : List Op) (cl : Nat) (ct : Int) (svc : Nat)
    (hk : ∀ op ∈ mid, Keeps ct op) :
    (run c (pre ++ Op.present cl ct svc :: (mid ++ [Op.present cl ct svc]))).2 =
      (run c pre).2 ++ some (present (run c pre).1 cl ct svc).2 ::
        ((run (present (run c pre).1 cl ct svc).1 mid).2 ++ [some true]) := by
  have h1 := present_holds (run c pre).1 cl ct svc
  have h2 := holds_run (present (run c pre).1 cl ct svc).1 mid cl ct svc hk h1
  have h3 := present_replay_of_holds _ cl ct svc h2
  rw [run_append]
  simp only [run, step]
  rw [run_append]
  simp only [run, step, h3]

/-- the clock readings of clean-ups in a history -/
def cleanupsBefore (limit d : Int) : Op → Prop
  | .present _ _ _ => True
  | .cleanup now d' => now ≤ limit ∧ d' = d

/-- **C02 once_window.** Clean-ups that use the skew `d` and run no later than the second presentation
    (time `now2`) cannot purge an authenticator that still passes the skew check at `now2`. -/
theorem once_window (c : Cache) (pre mid : List Op) (cl : Nat) (ct : Int) (svc : Nat) (now2 d : Int)
    (hm : ∀ op ∈ mid, cleanupsBefore now2 d op) (hskew : now2 - ct ≤ d) :
    (run c (pre ++ Op.present cl ct svc :: (mid ++ [Op.present cl ct svc]))).2 =
      (run c pre).2 ++ some (present (run c pre).1 cl ct svc).2 ::
        ((run (present (run c pre).1 cl ct svc).1 mid).2 ++ [some true]) := by
  apply once
  intro op hop
  have := hm op hop
  cases op with
  | present _ _ _ => trivial
  | cleanup now d' =>
    simp only [cleanupsBefore] at this
    simp only [Keeps]
    omega

/-! ## no false replays -/

theorem holds_addSvc_inv (c : Cache) (cl cl' : Nat) (ct ct' : Int) (svc svc' : Nat)
    (h : holds (addSvc c cl' ct' svc') cl ct svc = true) :
    holds c cl ct svc = true ∨ (cl = cl' ∧ ct = ct' ∧ svc = svc') := by
  rw [holds_iff] at h
  rw [holds_iff]
  induction c with
  | nil =>
    obtain ⟨x, hx, hp⟩ := h
    simp only [addSvc, List.mem_singleton] at hx
    rw [hx] at hp
    simp only [List.mem_singleton] at hp
    right; exact ⟨hp.1.symm, hp.2.1.symm, hp.2.2⟩
  | cons e rest ih =>
    obtain ⟨x, hx, hp⟩ := h
    simp only [addSvc] at hx
    by_cases hk : e.client = cl' ∧ e.ctime = ct'
    · rw [if_pos hk] at hx
      simp only [List.mem_cons] at hx
      cases hx with
      | inl hx1 =>
        rw [hx1] at hp
        simp only [List.mem_append, List.mem_singleton] at hp
        cases hp.2.2 with
        | inl hm => left; exact ⟨e, by simp, hp.1, hp.2.1, hm⟩
        | inr hm => right; exact ⟨hp.1.symm.trans hk.1, hp.2.1.symm.trans hk.2, hm⟩
      | inr hx2 => left; exact ⟨x, by simp [hx2], hp⟩
    · rw [if_neg hk] at hx
      simp only [List.mem_cons] at hx
      cases hx with
      | inl hx1 => left; exact ⟨x, by simp [hx1], hp⟩
      | inr hx2 =>
        cases ih ⟨x, hx2, hp⟩ with
        | inl h3 => obtain ⟨y, hy, hq⟩ := h3; left; exact ⟨y, by simp [hy], hq⟩
        | inr h3 => right; exact h3

theorem holds_cleanup_inv (c : Cache) (cl : Nat) (ct : Int) (svc : Nat) (now d : Int)
    (h : holds (cleanup c now d) cl ct svc = true) : holds c cl ct svc = true := by
  rw [holds_iff] at h ⊢
  obtain ⟨e, he, hp⟩ := h
  simp only [cleanup, List.mem_filter] at he
  exact ⟨e, he.1, hp⟩

/-- whatever the cache holds after a history was either there before or was presented in it -/
theorem holds_run_inv (c : Cache) (ops : List Op) (cl : Nat) (ct : Int) (svc : Nat)
    (h : holds (run c ops).1 cl ct svc = true) :
    holds c cl ct svc = true ∨ Op.present cl ct svc ∈ ops := by
  induction ops generalizing c with
  | nil => left; simpa [run] using h
  | cons op ops ih =>
    simp only [run] at h
    cases ih _ h with
    | inr hm => right; simp [hm]
    | inl hs =>
      cases op with
      | present cl' ct' svc' =>
        simp only [step, present] at hs
        by_cases hp : holds c cl' ct' svc' = true
        · simp only [hp, if_true] at hs; left; exact hs
        · simp only [hp] at hs
          cases holds_addSvc_inv c cl cl' ct ct' svc svc' hs with
          | inl h1 => left; exact h1
          | inr h1 => right; simp [h1.1, h1.2.1, h1.2.2]
      | cleanup now d =>
        simp only [step] at hs
        left; exact holds_cleanup_inv c cl ct svc now d hs

/-- **C02 exact.** Starting from the empty cache, a replay verdict for (client, ctime, service) is
    always preceded by a presentation of exactly that triple. -/
theorem exact (pre : List Op) (cl : Nat) (ct : Int) (svc : Nat)
    (h : (present (run [] pre).1 cl ct svc).2 = true) : Op.present cl ct svc ∈ pre := by
  have hh : holds (run [] pre).1 cl ct svc = true := by
    unfold present at h
    by_cases hp : holds (run [] pre).1 cl ct svc = true
    · exact hp
    · simp [hp] at h
  cases holds_run_inv [] pre cl ct svc hh with
  | inl h0 => simp [holds] at h0
  | inr hm => exact hm

/-! ## concurrency -/

/-- results of presenting the same triple n times in a row -/
theorem same_n (c : Cache) (cl : Nat) (ct : Int) (svc : Nat) (n : Nat)
    (h : holds c cl ct svc = true) :
    (run c (List.replicate n (Op.present cl ct svc))).2 = List.replicate n (some true) := by
  induction n generalizing c with
  | zero => rfl
  | succ n ih =>
    simp only [List.replicate_succ, run, step]
    have hr := present_replay_of_holds c cl ct svc h
    have hc : (present c cl ct svc).1 = c := by simp [present, h]
    rw [hr, hc, ih c h]

theorem filterMap_const (ops : List Op) (p : Op) (m : Nat) (hops : ∀ i < m, ops[i]? = some p)
    (l : List Nat) (hl : ∀ i ∈ l, i < m) : l.filterMap (fun i => ops[i]?) = List.replicate l.length p := by
  induction l with
  | nil => rfl
  | cons i l ih =>
    simp only [List.filterMap_cons, hops i (hl i (by simp)), List.length_cons, List.replicate_succ]
    rw [ih (fun j hj => hl j (by simp [hj]))]

/-- **C02 concurrent_once.** n ≥ 1 threads present the same authenticator to a cache that does not hold
    it; each `IsReplay` is one atomic block.  Under every order in which the threads obtain the lock
    (every permutation-with-repetition-free schedule covering all threads) exactly the first one is
    accepted and all others are flagged. -/
theorem concurrent_once (c : Cache) (cl : Nat) (ct : Int) (svc : Nat) (n : Nat)
    (order : List Nat) (hfresh : holds c cl ct svc = false)
    (hall : ∀ i ∈ order, i < n + 1) (hlen : order.length = n + 1) :
    (runAtomic c (List.replicate (n + 1) (Op.present cl ct svc)) order).2
      = some false :: List.replicate n (some true) := by
  unfold runAtomic
  have hops : ∀ i < n + 1, (List.replicate (n + 1) (Op.present cl ct svc))[i]? = some (Op.present cl ct svc) := by
    intro i hi; simp [List.getElem?_replicate, hi]
  have hmap : order.filterMap (fun i => (List.replicate (n + 1) (Op.present cl ct svc))[i]?)
      = List.replicate (n + 1) (Op.present cl ct svc) := by
    have := filterMap_const (List.replicate (n + 1) (Op.present cl ct svc)) (Op.present cl ct svc)
      (n + 1) hops order hall
    rw [this, hlen]
  rw [hmap]
  simp only [List.replicate_succ, run, step]
  have h1 : (present c cl ct svc).2 = false := by simp [present, hfresh]
  have h2 := present_holds c cl ct svc
  rw [h1, same_n _ cl ct svc n h2]

/-! ## the unrepaired code -/

/-- **v0_double_accept.** Two threads presenting the same authenticator to the unrepaired cache: under
    the schedule look-up₀, look-up₁, add₀, add₁ both are accepted. -/
theorem v0_double_accept :
    (V0.runSchedule [] [{ cl := 1, ct := 100, svc := 7 }, { cl := 1, ct := 100, svc := 7 }] [0, 1, 0, 1]).2
      = [{ cl := 1, ct := 100, svc := 7, pc := .done false }, { cl := 1, ct := 100, svc := 7, pc := .done false }] := by
  decide

/-- the unrepaired single-service entry: A, then B, then A again is not flagged -/
theorem v0_two_services :
    (V0.runSchedule [] [{ cl := 1, ct := 100, svc := 7 }, { cl := 1, ct := 100, svc := 8 },
        { cl := 1, ct := 100, svc := 7 }] [0, 0, 1, 1, 2, 2]).2.map (·.pc)
      = [.done false, .done false, .done false] := by decide

/-! ## (T) the lock shape of the current cache.go -/

/-- **atomic_facts.** In the source as it is now, `Cache.IsReplay` (callees inlined) acquires the cache
    lock exactly once, as a write lock, and touches the cache maps only while holding it; the same for
    `ClearOldEntries` and `AddEntry`. -/
theorem atomic_facts :
    Gen.cacheShape "IsReplay" = some (1, 1, 0) ∧
    Gen.cacheShape "ClearOldEntries" = some (1, 1, 0) ∧
    Gen.cacheShape "AddEntry" = some (1, 1, 0) := by decide

/-! ## the background cleaner -/

/-- **cleaner_facts.** In the source as it is now the cleaner goroutine of `GetReplayCache` sleeps and
    then clears with the retention period *read after the sleep* (the largest skew any service has
    registered by then). -/
theorem cleaner_facts :
    Gen.cleanerLoop = ["time.Sleep(replayCache.getMaxAge())", "replayCache.ClearOldEntries(replayCache.getMaxAge())"] := by
  decide

/-- a clean-up with a period at least as large as a service's skew keeps every entry that service would
    still accept -/
theorem cleanup_keeps (c : Cache) (now maxAge d : Int) (e : Entry) (he : e ∈ c) (hd : d ≤ maxAge)
    (hw : now - e.ctime ≤ d) : e ∈ cleanup c now maxAge := by
  unfold cleanup
  simp only [List.mem_filter, decide_eq_true_eq]
  exact ⟨he, by omega⟩

/-- with the period the cleaner went to sleep with (a service with a larger skew registered meanwhile),
    an entry that service still accepts is dropped: the replay is then accepted -/
theorem stale_period_counterexample :
    let c := (present [] 1 1000 7).1          -- accepted by a service with skew 5000 at time 2000
    (present (cleanup c 2300 300) 1 1000 7).2 = false ∧ (present (cleanup c 2300 5000) 1 1000 7).2 = true := by
  decide

/-! non-vacuity: a concrete history with an intervening clean-up inside the window -/
example : (run [] [Op.present 1 1000 7, Op.present 2 1000 7, Op.cleanup 1200 300, Op.present 1 1000 8,
    Op.present 1 1000 7]).2 = [some false, some false, none, some false, some true] := by decide

end Krb.C02
