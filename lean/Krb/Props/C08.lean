/-
  C08 — Passwords, salts and parameters derive exactly the RFC-defined keys.

    * `pa_precedence`, `pa_order_independent` : the hint selection of `GetKeyFromPassword` equals the
          RFC 4120 §5.2.7.5 precedence for every sequence with at most one hint of each kind, hence
          does not depend on the order; `pa_v0_order_dependent` is the witness for the unrepaired loop
    * `parity_odd`, `stretch56_parity`, `fixWeak_not_weak` : des3 random-to-key always yields odd-parity,
          non-weak DES keys
    * `utf16_roundtrip` : UTF-16LE encoding used by the rc4 string-to-key is injective on scalar values
    * `iterations_roundtrip`, `iterations_malformed` : s2kparams are exactly 4 octets, big endian
    * `nfold_length`, `kdf_length`
    * `genkey_facts` (T) : key sizes the current Go etypes report = RFC key sizes
  "Go value = RFC value" for string-to-key, n-fold, DR/DK, KDF and random-to-key is carried by the
  correspondence run against the arithmetic/RFC definitions in Crypto/Spec.lean.
-/
import Krb.Model.S2K
import Krb.Gen.CryptoFacts
import Krb.Props.C05
namespace Krb.C08

open Krb Krb.Crypto Krb.S2K

/-! ## PA-data precedence -/

theorem nodup4_false (a b c d : HintKind) (rest : List HintKind) :
    ¬ (a :: b :: c :: d :: rest).Nodup := by
  intro h
  simp only [List.nodup_cons, List.mem_cons] at h
  cases a <;> cases b <;> cases c <;> cases d <;> simp_all

/-- **C08 pa_precedence.** -/
theorem pa_precedence (hs : List Hint) (h : NoDupKinds hs) : Impl.select hs = Spec.select hs := by
  unfold NoDupKinds at h
  match hs, h with
  | [], _ => rfl
  | [⟨ka, sa, pa, ea⟩], _ =>
    cases ka <;> cases pa <;> simp [Impl.select, Impl.step, Spec.select, HintKind.id]
  | [⟨ka, sa, pa, ea⟩, ⟨kb, sb, pb, eb⟩], h =>
    cases ka <;> cases kb <;> cases pa <;> cases pb <;>
      simp_all [Impl.select, Impl.step, Spec.select, HintKind.id]
  | [⟨ka, sa, pa, ea⟩, ⟨kb, sb, pb, eb⟩, ⟨kc, sc, pc, ec⟩], h =>
    cases ka <;> cases kb <;> cases kc <;> cases pa <;> cases pb <;> cases pc <;>
      simp_all [Impl.select, Impl.step, Spec.select, HintKind.id]
  | a :: b :: c :: d :: rest, h =>
    exact absurd h (by simpa using nodup4_false a.kind b.kind c.kind d.kind (rest.map (·.kind)))

theorem find_perm_nodup (p : HintKind) (hs hs' : List Hint) (hp : hs.Perm hs') (h : NoDupKinds hs) :
    hs.find? (·.kind = p) = hs'.find? (·.kind = p) := by
  induction hp with
  | nil => rfl
  | cons x _ ih =>
    simp only [List.find?_cons]
    split
    · rfl
    · exact ih (by unfold NoDupKinds at h ⊢; simp only [List.map_cons, List.nodup_cons] at h; exact h.2)
  | swap x y l =>
    unfold NoDupKinds at h
    simp only [List.map_cons, List.nodup_cons, List.mem_cons] at h
    simp only [List.find?_cons]
    by_cases hx : x.kind = p <;> by_cases hy : y.kind = p <;> simp_all
  | trans p1 _ ih1 ih2 =>
    rw [ih1 h]
    apply ih2
    unfold NoDupKinds at h ⊢
    exact (List.Perm.nodup_iff (List.Perm.map _ p1)).mp h

/-- **C08 pa_order_independent.** Any two orderings of the same hints select the same salt and
    parameters. -/
theorem pa_order_independent (hs hs' : List Hint) (hp : hs.Perm hs') (h : NoDupKinds hs) :
    Impl.select hs = Impl.select hs' := by
  have h' : NoDupKinds hs' := by
    unfold NoDupKinds at h ⊢
    exact (List.Perm.nodup_iff (List.Perm.map _ hp)).mp h
  rw [pa_precedence hs h, pa_precedence hs' h']
  unfold Spec.select
  rw [find_perm_nodup .info2 hs hs' hp h, find_perm_nodup .info hs hs' hp h,
    find_perm_nodup .pwSalt hs hs' hp h]

/-- the unrepaired loop depended on the order (defect fixed in /repo) -/
theorem pa_v0_order_dependent :
    Impl.select_v0 [⟨.info2, [1], none, none⟩, ⟨.pwSalt, [2], none, none⟩] ≠
    Impl.select_v0 [⟨.pwSalt, [2], none, none⟩, ⟨.info2, [1], none, none⟩] := by decide

/-- **pa_v1_order_dependent.** before the second repair the etype used depended on the order: asked for
    etype 18, a PA-ETYPE-INFO naming 17 followed by a PA-ETYPE-INFO2 naming 18 left 17 in use, the other
    order did not (defect fixed in /repo) -/
theorem pa_v1_order_dependent :
    (Impl.select_v1 18 [⟨.info, [2], none, some 17⟩, ⟨.info2, [1], none, some 18⟩]).etype = some 17 ∧
    (Impl.select_v1 18 [⟨.info2, [1], none, some 18⟩, ⟨.info, [2], none, some 17⟩]).etype = none ∧
    (Impl.select [⟨.info, [2], none, some 17⟩, ⟨.info2, [1], none, some 18⟩]).etype = some 18 := by decide

/-- **pa_etype_of_winner.** the etype used is the one the hint of highest precedence names (none when only
    a PA-PW-SALT is present): never that of a hint that lost -/
theorem pa_etype_of_winner (hs : List Hint) (h : NoDupKinds hs) :
    (Impl.select hs).etype =
      match hs.find? (·.kind = .info2), hs.find? (·.kind = .info) with
      | some w, _ => w.etype
      | none, some w => w.etype
      | none, none => none := by
  rw [pa_precedence hs h]
  unfold Spec.select
  cases h2 : hs.find? (·.kind = .info2) with
  | some w => simp
  | none =>
    cases h1 : hs.find? (·.kind = .info) with
    | some w => simp
    | none => cases hs.find? (·.kind = .pwSalt) <;> simp

/-- **pa_salt_absent_is_default.** a winning hint without a salt selects the default salt (the empty
    selection), whatever salts the hints of lower precedence carry -/
theorem pa_salt_of_winner (hs : List Hint) (h : NoDupKinds hs) (w : Hint)
    (hw : hs.find? (·.kind = .info2) = some w) : (Impl.select hs).salt = w.salt := by
  rw [pa_precedence hs h]
  unfold Spec.select
  rw [hw]

example : NoDupKinds [⟨.info2, [1], some [0, 0, 16, 0], some 18⟩, ⟨.pwSalt, [2], none, none⟩, ⟨.info, [3], none, some 18⟩] := by
  unfold NoDupKinds; decide

/-! ## des3 random-to-key -/

def oddParity (b : UInt8) : Bool := (List.range 8).foldl (fun a i => a + (b.toNat >>> i) % 2) 0 % 2 = 1

theorem parity_odd_all : ∀ n < 256, oddParity (parityByte (UInt8.ofNat n)) = true := by decide +kernel

/-- **C08 parity_odd.** -/
theorem parity_odd (b : UInt8) : oddParity (parityByte b) = true := by
  have := parity_odd_all b.toNat b.toNat_lt
  simpa using this

theorem parity_top7_all : ∀ n < 256, (parityByte (UInt8.ofNat n)).toNat / 2 = n / 2 := by
  decide +kernel

/-- the seven payload bits are kept: the top 7 bits of each key byte are those of the input -/
theorem parity_top7 (b : UInt8) : (parityByte b).toNat / 2 = b.toNat / 2 := by
  have := parity_top7_all b.toNat b.toNat_lt
  simpa using this

/-- **C08 stretch56_parity.** every byte of the stretched key has odd parity, for every input -/
theorem stretch56_parity (r : Bytes) : ∀ b ∈ stretch56 r, oddParity b = true := by
  intro b hb
  simp only [stretch56, List.mem_append, List.mem_map, List.mem_singleton] at hb
  cases hb with
  | inl h => obtain ⟨x, _, rfl⟩ := h; exact parity_odd _
  | inr h => rw [h]; exact parity_odd _

theorem stretch56_length (r : Bytes) : (stretch56 r).length = r.length + 1 := by
  simp [stretch56]

theorem weak_fixed_all : ∀ k ∈ desWeakKeys, desWeakKeys.contains (fixWeak k) = false := by
  decide +kernel

/-- **C08 fixWeak_not_weak.** the corrected key is never one of the 16 weak / semi-weak DES keys -/
theorem fixWeak_not_weak (k : Bytes) : desWeakKeys.contains (fixWeak k) = false := by
  by_cases h : desWeakKeys.contains k = true
  · exact weak_fixed_all k (by simpa using h)
  · have hf : fixWeak k = k := by unfold fixWeak; rw [if_neg h]
    rw [hf]; simpa using h

/-! ## UTF-16LE -/

theorem le16_decode (n : Nat) (h : n < 65536) :
    ∃ a b, le16 n = [a, b] ∧ b.toNat * 256 + a.toNat = n := by
  refine ⟨UInt8.ofNat n, UInt8.ofNat (n / 256), rfl, ?_⟩
  simp [UInt8.toNat_ofNat']; omega

theorem decode16_utf16le (cs : List Nat) (h : ∀ c ∈ cs, Scalar c) (fuel : Nat) (hf : cs.length ≤ fuel) :
    decode16 fuel (utf16le cs) = some cs := by
  induction cs generalizing fuel with
  | nil => cases fuel <;> simp [utf16le, decode16]
  | cons c cs ih =>
    have hc := h c (by simp)
    cases fuel with
    | zero => simp at hf
    | succ f =>
      have ih' := ih (fun c' hc' => h c' (by simp [hc'])) f (by simp at hf; omega)
      simp only [utf16le]
      by_cases hb : c < 0x10000
      · simp only [hb, if_true]
        obtain ⟨a, b, e, hv⟩ := le16_decode c hb
        rw [e]
        have h1 : ¬ (0xD800 ≤ c ∧ c < 0xDC00) := by unfold Scalar at hc; omega
        have h2 : ¬ (0xDC00 ≤ c ∧ c < 0xE000) := by unfold Scalar at hc; omega
        simp only [List.cons_append, List.nil_append, decode16, List.isEmpty_cons, takeU16, hv,
          h1, h2, if_false, ih', Option.map_some, Bool.false_eq_true]
      · simp only [hb, if_false]
        have hc2 : c < 0x110000 := by unfold Scalar at hc; omega
        obtain ⟨a, b, e, hv⟩ := le16_decode (0xD800 + (c - 0x10000) / 1024) (by omega)
        obtain ⟨a', b', e', hv'⟩ := le16_decode (0xDC00 + (c - 0x10000) % 1024) (by omega)
        rw [e, e']
        have h1 : (0xD800 ≤ 0xD800 + (c - 0x10000) / 1024 ∧ 0xD800 + (c - 0x10000) / 1024 < 0xDC00) := by
          omega
        have h2 : (0xDC00 ≤ 0xDC00 + (c - 0x10000) % 1024 ∧ 0xDC00 + (c - 0x10000) % 1024 < 0xE000) := by
          omega
        simp only [List.cons_append, List.nil_append, decode16, List.isEmpty_cons, takeU16, hv, hv',
          h1, h2, and_self, if_true, if_false, ih', Option.map_some, Bool.false_eq_true,
          Option.some.injEq, List.cons.injEq, and_true]
        omega

theorem utf16le_length_ge (cs : List Nat) : cs.length ≤ (utf16le cs).length := by
  induction cs with
  | nil => simp [utf16le]
  | cons c cs ih => simp only [utf16le, List.length_cons, List.length_append]; split <;> simp <;> omega

/-- **C08 utf16_roundtrip.** -/
theorem utf16_roundtrip (cs : List Nat) (h : ∀ c ∈ cs, Scalar c) :
    decodeUtf16le (utf16le cs) = some cs :=
  decode16_utf16le cs h _ (utf16le_length_ge cs)

/-- hence the rc4 string-to-key input determines the password: distinct passwords never share their
    UTF-16LE encoding -/
theorem utf16_injective (cs cs' : List Nat) (h : ∀ c ∈ cs, Scalar c) (h' : ∀ c ∈ cs', Scalar c)
    (e : utf16le cs = utf16le cs') : cs = cs' := by
  have := utf16_roundtrip cs h
  rw [e, utf16_roundtrip cs' h'] at this
  simpa using this.symm

/-! ## parameters and lengths -/

/-- **C08 iterations_roundtrip.** -/
theorem iterations_roundtrip (n : Nat) (h : n < 4294967296) : parseIterations (be32 n) = some n := by
  have := dec32be_be32 n h []
  simp only [List.append_nil] at this
  simp [parseIterations, this]

/-- **C08 iterations_malformed.** anything that is not exactly 4 octets is rejected -/
theorem iterations_malformed (p : Bytes) (h : p.length ≠ 4) : parseIterations p = none := by
  unfold parseIterations
  match p with
  | [] | [_] | [_, _] | [_, _, _] => rfl
  | [_, _, _, _] => simp at h
  | _ :: _ :: _ :: _ :: _ :: _ => simp [dec32be]

theorem nfold_length (m : Bytes) (nbits : Nat) : (nfold m nbits).length = nbits / 8 := by
  by_cases hk : m.length * 8 = 0 ∨ nbits = 0 <;> simp [nfold, hk]

theorem kdf_length (hP : P.Lawful) (key label ctx : Bytes) (kbits : Nat) :
    (kdfHmacSha2 P .aes128sha2 key label ctx kbits).length = min (kbits / 8) 32 ∧
    (kdfHmacSha2 P .aes256sha2 key label ctx kbits).length = min (kbits / 8) 48 := by
  simp [kdfHmacSha2, hmacOf, hP.hmacSha256_len, hP.hmacSha384_len]

/-- **C08 genkey_facts (T).** the key size every Go etype reports (the size of generated session keys
    and subkeys) is the RFC protocol-key size -/
theorem genkey_facts :
    Gen.etypeProfile.map (fun (id, key, _, _, _, _, _, _) => (id, key)) =
      [EType.des3, .aes128, .aes256, .aes128sha2, .aes256sha2, .rc4].map (fun et => (et.id, et.keyLen)) := by
  decide

/-- the seed size the Go etypes report is what the derivation needs: RFC 3961 seed length for the
    DK families, the Kc/Ki size (RFC 8009 §5) for the SHA-2 families -/
theorem seed_facts :
    Gen.etypeProfile.map (fun (id, _, seed, _, _, _, _, _) => (id, seed)) =
      [(16, 168), (17, 128), (18, 256), (19, 128), (20, 192), (23, 128)] := by decide

end Krb.C08
