/-
  C16 — krb5.conf parsing, realm resolution and KDC selection follow MIT semantics.

    * `step_total`, `nested_total` : the realm block parser never panics, for every sequence of lines and
                                     any bracket nesting (`v0_nested_panics`: the unrepaired code did)
    * `unpaired_rejected`          : a closing bracket without an opening one is an error
    * `invalid_line_rejected`      : a non-blank line with neither '=' nor '}' is an error
    * `nested_relations_skipped`   : a relation at depth > 0 never changes the realm
    * `final_marker`, `final_absorbs` : after a value ending in '*' later values of that relation are ignored
    * `kdc_port_default`           : a kdc value without a port gets ":88" (marker kept)
    * `resolve_exact`, `resolve_suffix`, `resolve_none`, `resolve_most_specific`
                                   : host-to-realm resolution returns the exact host mapping if there is
                                     one, else the mapping of the longest matching domain suffix, else ""
    * `parseRealms_total`, `v0_one_line_block_panics`
                                   : splitting the [realms] section into realm blocks never panics (the
                                     unrepaired code did on `REALM = { }`)
    * `hms_canonical`, `hms_two_parts`, `hms_arity`, `hms_range`
                                   : the h:m[:s] duration form denotes h*3600 + m*60 + s seconds: every
                                     number of seconds n (with n/3600 in the 16-bit range) written as
                                     h:m:s is read back as n; other arities and parts outside the 16-bit
                                     range are errors
  Whole-file parsing (sections, comments, whitespace, booleans, the other duration formats, enctype lists) is
  covered by the correspondence run with rendered configurations; it is not proved at the string level.
-/
import Krb.Model.Conf
namespace Krb.C16

open Krb Krb.Conf

/-- **step_total.** one iteration never panics -/
theorem step_total (s : St) (ln : Line) : (step s ln).isPanic = false := by
  unfold step
  split <;> rfl

/-- **nested_total.** -/
theorem nested_total (s : St) (lines : List Line) : (run step s lines).isPanic = false := by
  induction lines generalizing s with
  | nil => rfl
  | cons l ls ih =>
    simp only [run]
    have := step_total s l
    split
    · exact ih _
    · rfl
    · rename_i w h; rw [h] at this; simp [Outcome.isPanic] at this

theorem parseRealm_total (lines : List Line) : (parseRealm lines).isPanic = false := by
  unfold parseRealm
  have := nested_total {} lines
  split
  · rfl
  · rfl
  · rename_i w h; rw [h] at this; simp [Outcome.isPanic] at this

/-- the closing line of a nested block that is not a v4 directive -/
def closeLine : Line := { hasEq := false, hasOpen := false, hasClose := true, hasV4 := false }
def openLine : Line := { hasEq := true, hasOpen := true, hasClose := false, hasV4 := false, key := .other, val := ['{'] }
def rel (k : RKey) (v : String) : Line := { hasEq := true, hasOpen := false, hasClose := false, hasV4 := false, key := k, val := v.toList }

/-- **v0_nested_panics.** `auth_to_local_names = {` … `}` inside a realm crashed the unrepaired parser -/
theorem v0_nested_panics :
    (run step_v0 {} [{ hasEq := true, hasOpen := false, hasClose := false, hasV4 := false, key := .kdc, val := ['k'] },
      openLine,
      { hasEq := true, hasOpen := false, hasClose := false, hasV4 := false, key := .other, val := ['l'] },
      closeLine]).isPanic = true := by decide

/-- **unpaired_rejected.** -/
theorem unpaired_rejected (s : St) (ln : Line) (hb : ln.blank = false) (hc : ln.hasClose = true)
    (ho : ln.hasOpen = false) (hd : s.depth = 0) (hi : s.ignore = false) (hv : ln.hasV4 = false) :
    step s ln = .err "unpaired" := by
  unfold step stepCore
  simp [hb, hc, ho, hd, hi, hv]

/-- **invalid_line_rejected.** -/
theorem invalid_line_rejected (s : St) (ln : Line) (hb : ln.blank = false) (he : ln.hasEq = false)
    (hc : ln.hasClose = false) (hi : s.ignore = false) : step s ln = .err "invalid-line" := by
  unfold step stepCore
  simp [hb, he, hc, hi]

/-- **nested_relations_skipped.** a plain relation at depth > 0 leaves the realm as it is -/
theorem nested_relations_skipped (s : St) (k : RKey) (v : String) (hd : s.depth > 0) (hi : s.ignore = false) :
    ∃ s', step s (rel k v) = .ok s' ∧ s'.r = s.r := by
  have hne : ¬ s.depth = 0 := by omega
  refine ⟨s, ?_, rfl⟩
  unfold step stepCore rel
  simp only [hi, Bool.false_and, Bool.false_eq_true, if_false, Bool.not_true, Bool.and_false,
    Bool.and_self, hd, if_true]
  cases s
  simp_all

/-- **final_marker.** a value ending in '*' is stored without the marker and closes the list -/
theorem final_marker (l : List Str) (v : Str) (h : endsStar v = true) :
    appendUntilFinal l v false = (l ++ [v.dropLast], true) := by
  simp [appendUntilFinal, h]

/-- **final_absorbs.** once closed, the list never changes again -/
theorem final_absorbs (l : List Str) (v : Str) : appendUntilFinal l v true = (l, true) := by
  simp [appendUntilFinal]

theorem nonfinal_appends (l : List Str) (v : Str) (h : endsStar v = false) :
    appendUntilFinal l v false = (l ++ [v], false) := by
  simp [appendUntilFinal, h]

/-- **kdc_port_default.** a value that names no port gets ":88"; a final-value marker stays last -/
theorem kdc_port_default (v : Str) (h : v.contains ':' = false) (hs : endsStar v = false) :
    kdcValue v = trimRight v ++ [':', '8', '8'] := by
  have h' : ¬ (':' ∈ v) := by simpa using h
  simp [kdcValue, h', hs]

theorem kdc_port_default_final (v : Str) (h : v.contains ':' = false) (hs : endsStar v = true) :
    kdcValue v = trimRight v.dropLast ++ [':', '8', '8', '*'] := by
  have h' : ¬ (':' ∈ v) := by simpa using h
  simp [kdcValue, h', hs]

theorem kdc_port_kept (v : Str) (h : v.contains ':' = true) : kdcValue v = v := by
  have h' : ':' ∈ v := by simpa using h
  simp [kdcValue, h']

example : kdcValue ['k', '.', 'c'] = ['k', '.', 'c', ':', '8', '8'] ∧
    kdcValue ['k', ':', '7'] = ['k', ':', '7'] ∧
    kdcValue ['k', ' ', '*'] = ['k', ':', '8', '8', '*'] := by decide

/-! ## resolution -/

/-- **resolve_exact.** -/
theorem resolve_exact (m : Mapping) (host : List Str) (r : Str)
    (h : lookup m (.exact host) = some r) : resolve m host = r := by
  simp [resolve, h]

/-- **resolve_suffix.** no exact mapping: the longest proper suffix that has a domain mapping wins -/
theorem resolve_suffix (m : Mapping) (host : List Str) (pre : List (List Str)) (suf : List Str) (rest : List (List Str)) (r : Str)
    (hx : lookup m (.exact host) = none)
    (hs : properSuffixes host = pre ++ suf :: rest)
    (hpre : ∀ s ∈ pre, lookup m (.dom s) = none) (hr : lookup m (.dom suf) = some r) :
    resolve m host = r := by
  simp only [resolve, hx, hs]
  have : ∀ (pre : List (List Str)), (∀ s ∈ pre, lookup m (.dom s) = none) →
      (pre ++ suf :: rest).findSome? (fun s => lookup m (.dom s)) = some r := by
    intro pre
    induction pre with
    | nil => intro _; simp [List.findSome?_cons, hr]
    | cons p ps ih =>
      intro hp
      simp only [List.cons_append, List.findSome?_cons, hp p (by simp)]
      exact ih (fun s hs' => hp s (by simp [hs']))
  have := this pre hpre
  rw [this]

/-- **resolve_none.** -/
theorem resolve_none (m : Mapping) (host : List Str)
    (hx : lookup m (.exact host) = none)
    (hs : ∀ s ∈ properSuffixes host, lookup m (.dom s) = none) : resolve m host = [] := by
  simp only [resolve, hx]
  have : (properSuffixes host).findSome? (fun s => lookup m (.dom s)) = none := by
    rw [List.findSome?_eq_none_iff]
    exact hs
  rw [this]

theorem mem_properSuffixes_length (l : List Str) : ∀ x ∈ properSuffixes l, x.length < l.length := by
  induction l with
  | nil => intro x hx; simp [properSuffixes] at hx
  | cons a rest ih =>
    intro x hx
    simp only [properSuffixes] at hx
    by_cases he : rest.isEmpty = true
    · simp [he] at hx
    · simp only [he, Bool.false_eq_true, if_false, List.mem_cons] at hx
      cases hx with
      | inl e => subst e; simp
      | inr e => have := ih x e; simp; omega

/-- the proper suffixes are listed from the longest to the shortest -/
theorem properSuffixes_sorted (h : List Str) :
    (properSuffixes h).Pairwise (fun a b => b.length < a.length) := by
  induction h with
  | nil => simp [properSuffixes]
  | cons a rest ih =>
    simp only [properSuffixes]
    by_cases he : rest.isEmpty = true
    · simp [he]
    · simp only [he, Bool.false_eq_true, if_false, List.pairwise_cons]
      exact ⟨mem_properSuffixes_length rest, ih⟩

/-- **resolve_most_specific.** whenever a domain mapping decides, no longer suffix of the host has a
    mapping — the answer is the most specific one -/
theorem resolve_most_specific (m : Mapping) (host : List Str) (pre : List (List Str)) (suf : List Str)
    (rest : List (List Str))
    (hs : properSuffixes host = pre ++ suf :: rest)
    (hpre : ∀ s ∈ pre, lookup m (.dom s) = none) :
    ∀ s ∈ properSuffixes host, suf.length < s.length → lookup m (.dom s) = none := by
  intro s hsm hl
  have hsorted := properSuffixes_sorted host
  rw [hs] at hsm hsorted
  simp only [List.mem_append, List.mem_cons] at hsm
  rcases hsm with h | h | h
  · exact hpre s h
  · subst h; omega
  · exfalso
    rw [List.pairwise_append] at hsorted
    have := (List.pairwise_cons.mp hsorted.2.1).1 s h
    omega

/-! ### the [realms] section splitter -/

theorem closeBlock_total (s : OSt) (b : List OLine) : (closeBlock s b).isPanic = false := by
  unfold closeBlock
  have := nested_total {} (b.map (·.inner))
  split
  · rfl
  · rfl
  · rename_i w h; rw [h] at this; simp [Outcome.isPanic] at this

theorem sliceLines_ok (all : List OLine) (i j : Nat) (h1 : i ≤ j) (h2 : j ≤ all.length) :
    ∃ b, sliceLines all i j = .ok b := by
  unfold sliceLines
  have a1 : ¬ (j > all.length) := by omega
  have a2 : ¬ (i > j) := by omega
  rw [if_neg a1, if_neg a2]
  exact ⟨_, rfl⟩

/-- one iteration of the repaired loop at an index inside the section never panics -/
theorem outerStep_total (all : List OLine) (s : OSt) (i : Nat) (l : OLine) (hi : i ≤ all.length) :
    (outerStep true all s i l).isPanic = false := by
  unfold outerStep
  by_cases hb : l.blank = true
  · rw [if_pos hb]; rfl
  · rw [if_neg hb]
    -- the opening half
    have hopen : ∀ o : Outcome OSt, (∀ s1, o = .ok s1 →
        (if l.hasClose = true then
          if s1.c < 1 then (Outcome.err "not-started" : Outcome OSt)
          else if ({ s1 with c := s1.c - 1 } : OSt).c = 0 then
            match (if (true && !(decide (i > ({ s1 with c := s1.c - 1 } : OSt).start))) = true then Outcome.ok []
                   else sliceLines all (({ s1 with c := s1.c - 1 } : OSt).start + 1) i) with
            | .ok b => closeBlock { s1 with c := s1.c - 1 } b
            | .err e => .err e
            | .crash w => .crash w
          else .ok { s1 with c := s1.c - 1 }
        else .ok s1).isPanic = false) := by
      intro o s1 _
      by_cases hc : l.hasClose = true
      · rw [if_pos hc]
        by_cases h1 : s1.c < 1
        · rw [if_pos h1]; rfl
        · rw [if_neg h1]
          by_cases h0 : ({ s1 with c := s1.c - 1 } : OSt).c = 0
          · rw [if_pos h0]
            by_cases hg : i > s1.start
            · have : (true && !(decide (i > ({ s1 with c := s1.c - 1 } : OSt).start))) = false := by simp [hg]
              rw [this]
              obtain ⟨b, hb'⟩ := sliceLines_ok all (s1.start + 1) i (by omega) hi
              simp only [Bool.false_eq_true, if_false]
              rw [hb']
              exact closeBlock_total _ _
            · have : (true && !(decide (i > ({ s1 with c := s1.c - 1 } : OSt).start))) = true := by simp [hg]
              rw [this]
              simp only [if_true]
              exact closeBlock_total _ _
          · rw [if_neg h0]; rfl
      · rw [if_neg hc]; rfl
    by_cases ho : l.hasOpen = true
    · rw [if_pos ho]
      by_cases he : (!l.hasEq) = true
      · rw [if_pos he]; rfl
      · rw [if_neg he]
        by_cases h1 : s.c + 1 = 1
        · rw [if_pos h1]; exact hopen _ _ rfl
        · rw [if_neg h1]; exact hopen _ _ rfl
    · rw [if_neg ho]; exact hopen _ _ rfl

theorem outerLoop_total (all : List OLine) (s : OSt) (i : Nat) (ls : List OLine) (h : i + ls.length ≤ all.length) :
    (outerLoop true all s i ls).isPanic = false := by
  induction ls generalizing s i with
  | nil => rfl
  | cons l ls ih =>
    simp only [outerLoop]
    have hs := outerStep_total all s i l (by simp at h; omega)
    split
    · exact ih _ _ (by simp at h; omega)
    · rfl
    · rename_i w hw; rw [hw] at hs; simp [Outcome.isPanic] at hs

/-- **parseRealms_total.** splitting the [realms] section into blocks never panics, whatever the lines:
    blocks that open and close on one line, stray brackets, nesting -/
theorem parseRealms_total (lines : List OLine) : (parseRealms true lines).isPanic = false := by
  unfold parseRealms
  have := outerLoop_total lines {} 0 lines (by omega)
  split
  · split <;> rfl
  · rfl
  · rename_i w hw; rw [hw] at this; simp [Outcome.isPanic] at this

/-- a line that opens and closes a block: `REALM = { }` -/
def oneLineBlock : OLine :=
  { hasOpen := true, hasEq := true, hasClose := true, name := ['R'],
    inner := { hasEq := true, hasOpen := true, hasClose := true, hasV4 := false } }

/-- **v0_one_line_block_panics.** the unrepaired splitter sliced `lines[start+1:i]` with i = start -/
theorem v0_one_line_block_panics : (parseRealms false [oneLineBlock]).isPanic = true := by decide

/-- the repaired splitter reports an empty realm of that name -/
example : parseRealms true [oneLineBlock] = .ok ([(['R'], {})], false) := by decide

/-! non-vacuity -/
example : resolve [(.dom [['e'], ['c']], ['X']), (.dom [['b'], ['e'], ['c']], ['B']),
    (.exact [['h'], ['e'], ['c']], ['H'])] [['a'], ['b'], ['e'], ['c']] = ['B'] := by decide
example : resolve [(.dom [['e'], ['c']], ['X']), (.exact [['h'], ['e'], ['c']], ['H'])]
    [['h'], ['e'], ['c']] = ['H'] := by decide
example : (parseRealm [
      { hasEq := true, hasOpen := false, hasClose := false, hasV4 := false, key := .kdc, val := ['k', '1'] },
      openLine,
      { hasEq := true, hasOpen := false, hasClose := false, hasV4 := false, key := .kdc, val := ['e'] },
      closeLine,
      { hasEq := true, hasOpen := false, hasClose := false, hasV4 := false, key := .kdc, val := ['k', '2', '*'] },
      { hasEq := true, hasOpen := false, hasClose := false, hasV4 := false, key := .kdc, val := ['k', '3'] }]) =
    .ok { admin := [], kdc := [['k', '1', ':', '8', '8'], ['k', '2', ':', '8', '8']], kpasswd := [],
          master := [], defaultDomain := [] } := by
  decide

/-! durations: the h:m[:s] form -/

theorem int16Ok_nat (k : Nat) (h : k ≤ 32767) : int16Ok (k : Int) = true := by
  simp [int16Ok]; omega

/-- **hms_canonical.** every number of seconds, written as hours:minutes:seconds, is read back exactly -/
theorem hms_canonical (n : Nat) (h : n / 3600 ≤ 32767) :
    hmsSeconds [(n / 3600 : Nat), (n % 3600 / 60 : Nat), (n % 60 : Nat)] = some (n : Int) := by
  have a1 := int16Ok_nat (n / 3600) h
  have a2 := int16Ok_nat (n % 3600 / 60) (by omega)
  have a3 := int16Ok_nat (n % 60) (by omega)
  have hall : [((n / 3600 : Nat) : Int), ((n % 3600 / 60 : Nat) : Int), ((n % 60 : Nat) : Int)].all int16Ok = true := by
    simp only [List.all_cons, List.all_nil, a1, a2, a3, Bool.and_self]
  unfold hmsSeconds
  rw [hall]
  simp
  omega

/-- **hms_two_parts.** whole minutes written as hours:minutes -/
theorem hms_two_parts (k : Nat) (h : k / 60 ≤ 32767) :
    hmsSeconds [(k / 60 : Nat), (k % 60 : Nat)] = some ((k : Int) * 60) := by
  have a1 := int16Ok_nat (k / 60) h
  have a2 := int16Ok_nat (k % 60) (by omega)
  have hall : [((k / 60 : Nat) : Int), ((k % 60 : Nat) : Int)].all int16Ok = true := by
    simp only [List.all_cons, List.all_nil, a1, a2, Bool.and_self]
  unfold hmsSeconds
  rw [hall]
  simp
  omega

/-- **hms_arity.** fewer than two or more than three parts are an error -/
theorem hms_arity (parts : List Int) (h : parts.length < 2 ∨ parts.length > 3) : hmsSeconds parts = none := by
  unfold hmsSeconds
  rcases h with h | h <;> simp [h]

/-- **hms_range.** a part outside the 16-bit signed range is an error -/
theorem hms_range (parts : List Int) (p : Int) (hp : p ∈ parts) (h : p < -32768 ∨ p > 32767) :
    hmsSeconds parts = none := by
  unfold hmsSeconds
  have : parts.all int16Ok = false := by
    rw [List.all_eq_false]
    refine ⟨p, hp, ?_⟩
    simp [int16Ok]; omega
  split
  · rfl
  · simp [this]

example : hmsSeconds [25, 1, 1] = some 90061 := by decide
example : hmsSeconds [-1, 30] = some (-1800) := by decide
example : hmsSeconds [32768, 0] = none := by decide

end Krb.C16
