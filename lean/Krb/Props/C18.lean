/-
  C18 — the SPNEGO HTTP client authenticates once, replays the body, and terminates.
-/
import Krb.Model.HttpClient
namespace Krb.C18
open Krb Krb.HttpClient

/-- **bounded.** For every sequence of server responses — challenges, rejections, redirects, successes,
    failures, of any length — one call sends at most 2·(10 − redirects so far) + 2 requests: at most 20
    on a fresh client. -/
theorem bounded (canAuth : Nat → Bool) (script : List Resp) (reds : Nat) (rq : Req) :
    (run canAuth script reds rq).sent.length ≤ 2 * (10 - reds) + (if rq.token then 1 else 2) := by
  induction script generalizing reds rq with
  | nil => simp [run]; split <;> omega
  | cons r rest ih =>
    cases r with
    | netError => simp [run]; split <;> omega
    | final c => simp [run]; split <;> omega
    | redirect h keep code =>
      simp only [run]
      cases htg : redirectTarget rq h keep with
      | none => simp; split <;> omega
      | some target =>
        have htok : target.token = false := by
          unfold redirectTarget at htg
          split at htg
          · split at htg
            · simp at htg
            · simp only [Option.some.injEq] at htg; rw [← htg]
          · split at htg <;> (simp only [Option.some.injEq] at htg; rw [← htg])
        simp only
        by_cases hr : reds + 1 ≥ 10
        · rw [if_pos hr]; simp; split <;> omega
        · rw [if_neg hr]
          have := ih (reds + 1) target
          simp only [htok, Bool.false_eq_true, if_false] at this
          simp only [List.length_cons]
          split <;> omega
    | challenge =>
      simp only [run]
      cases hrt : rq.token with
      | true => simp
      | false =>
        simp only [Bool.false_eq_true, if_false]
        cases hc : canAuth rq.host with
        | false => simp
        | true =>
          simp only [if_true, List.length_cons]
          have := ih reds { rq with token := true }
          simp only [if_true] at this
          omega

theorem bounded_fresh (canAuth : Nat → Bool) (script : List Resp) (rq : Req) :
    (run canAuth script 0 rq).sent.length ≤ 22 := by
  have := bounded canAuth script 0 rq
  split at this <;> omega

/-- the original body goes out again with every request of the call -/
theorem body_resent (canAuth : Nat → Bool) (script : List Resp) (reds : Nat) (rq : Req) :
    ∀ q ∈ (run canAuth script reds rq).sent, q.body = rq.body := by
  induction script generalizing reds rq with
  | nil => simp [run]
  | cons r rest ih =>
    cases r with
    | netError => simp [run]
    | final c => simp [run]
    | redirect h keep code =>
      simp only [run]
      cases htg : redirectTarget rq h keep with
      | none => simp
      | some target =>
        have hb : target.body = rq.body := by
          unfold redirectTarget at htg
          split at htg
          · split at htg
            · simp at htg
            · simp only [Option.some.injEq] at htg; rw [← htg]
          · split at htg <;> (simp only [Option.some.injEq] at htg; rw [← htg])
        simp only
        by_cases hr : reds + 1 ≥ 10
        · rw [if_pos hr]; simp
        · rw [if_neg hr]
          intro q hq
          simp only [List.mem_cons] at hq
          rcases hq with hq | hq
          · rw [hq]
          · rw [← hb]; exact ih (reds + 1) target q hq
    | challenge =>
      simp only [run]
      cases hrt : rq.token with
      | true => simp
      | false =>
        simp only [Bool.false_eq_true, if_false]
        cases hc : canAuth rq.host with
        | false => simp
        | true =>
          simp only [if_true]
          intro q hq
          simp only [List.mem_cons] at hq
          rcases hq with hq | hq
          · rw [hq]
          · exact ih reds { rq with token := true } q hq

/-- the first request of a call goes out as it was given (a token is only added in answer to a challenge) -/
theorem first_request_as_given (canAuth : Nat → Bool) (script : List Resp) (reds : Nat) (rq : Req) :
    (run canAuth script reds rq).sent.head? = some rq := by
  cases script with
  | nil => simp [run]
  | cons r rest =>
    cases r with
    | netError => simp [run]
    | final c => simp [run]
    | redirect h keep code =>
      simp only [run]
      cases redirectTarget rq h keep with
      | none => simp
      | some target => simp only; split <;> simp
    | challenge =>
      simp only [run]
      cases rq.token with
      | true => simp
      | false => simp only [Bool.false_eq_true, if_false]; split <;> simp

/-- a challenge to a request that already carried a token is handed back, not answered again -/
theorem authenticates_once (canAuth : Nat → Bool) (rest : List Resp) (reds : Nat) (rq : Req) (h : rq.token = true) :
    run canAuth (.challenge :: rest) reds rq = { sent := [rq], result := .challengeReturned, redirects := reds } := by
  simp [run, h]

/-- A token is only ever sent to a host the client holds (or can get) a ticket for, and never carried over
    to the target of a redirect: every request of the call that carries a token goes to a host with
    `canAuth`, provided the caller's own request did not bring one along for another host. -/
theorem tokens_only_where_authorised (canAuth : Nat → Bool) (script : List Resp) (reds : Nat) (rq : Req)
    (h0 : rq.token = true → canAuth rq.host = true) :
    ∀ q ∈ (run canAuth script reds rq).sent, q.token = true → canAuth q.host = true := by
  induction script generalizing reds rq with
  | nil => intro q hq; simp [run] at hq; subst hq; exact h0
  | cons r rest ih =>
    cases r with
    | netError => intro q hq; simp [run] at hq; subst hq; exact h0
    | final c => intro q hq; simp [run] at hq; subst hq; exact h0
    | redirect h keep code =>
      intro q hq
      simp only [run] at hq
      cases ht : redirectTarget rq h keep with
      | none => simp [ht] at hq; subst hq; exact h0
      | some target =>
        simp only [ht] at hq
        split at hq
        · simp at hq; subst hq; exact h0
        · simp only [List.mem_cons] at hq
          rcases hq with hq | hq
          · subst hq; exact h0
          · have htok : target.token = false := by
              unfold redirectTarget at ht
              split at ht
              · split at ht
                · cases ht
                · cases ht; rfl
              · split at ht <;> (cases ht; rfl)
            exact ih (reds + 1) target (by simp [htok]) q hq
    | challenge =>
      intro q hq
      simp only [run] at hq
      split at hq
      · simp at hq; subst hq; exact h0
      · split at hq
        · rename_i hc
          simp only [List.mem_cons] at hq
          rcases hq with hq | hq
          · subst hq; exact h0
          · exact ih reds { rq with token := true } (fun _ => hc) q hq
        · simp at hq; subst hq; exact h0

/-- the unrepaired loop: a server that keeps challenging makes the client send a request per challenge,
    without bound -/
theorem v0_unbounded (n : Nat) (rq : Req) :
    (run_v0 (fun _ => true) (List.replicate n .challenge) 0 rq).sent.length = n + 1 := by
  induction n generalizing rq with
  | zero => simp [run_v0]
  | succ k ih =>
    simp only [List.replicate_succ, run_v0, if_true, List.length_cons]
    rw [ih]

/-- non-vacuity: the longest call: nine redirects each after an authentication, then the tenth -/
example : (run (fun _ => true)
    [.challenge, .redirect 1 true 307, .challenge, .redirect 2 true 307, .challenge, .redirect 3 true 308, .challenge, .redirect 4 false 302,
     .challenge, .redirect 5 false 303, .challenge, .redirect 6 false 301, .challenge, .redirect 7 false 302, .challenge, .redirect 8 false 302,
     .challenge, .redirect 9 false 302, .challenge, .redirect 10 false 302, .final 200] 0 { host := 0, token := false, body := true }).sent.length = 20 := by
  decide
example : (run (fun _ => true) [.challenge, .final 200] 0 { host := 0, token := false, body := true }) =
    { sent := [{ host := 0, token := false, body := true }, { host := 0, token := true, body := true }], result := .response 200, redirects := 0 } := by
  decide
/-- a 307 after a 302: the http.Client cannot rewind the re-attached body and hands the 307 back -/
example : (run (fun _ => true) [.redirect 1 false 302, .redirect 2 true 307, .final 200] 0 { host := 0, token := false, body := true }).result = .response 307 := by
  decide

end Krb.C18
