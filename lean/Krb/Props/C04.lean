/-
  C04 — no input makes a decoder or verifier panic, hang or allocate without bound.

  Theorems: the hand-written slicing of the decoders (Krb.Total, Go's partial operations explicit) never
  reaches a Go panic, for every input; the models of the parsers proved total elsewhere are collected
  here by reference (C03 accept_total / never_crashes, C16 step_total / nested_total / parseRealm_total,
  C06 min_length, C17 decode_strict, C19 process_ok_iff); each repaired function's predecessor is refuted
  by witness.  Everything else (the asn1 reflection decoder, net/http, the NDR decoder, the runtime) is
  the mutation run's matter.
-/
import Krb.Model.Total
namespace Krb.C04
open Krb Krb.Outcome Krb.Total

theorem goIdx_ok (b : Bytes) (i : Nat) (h : i < b.length) : ∃ x, goIdx b i = .ok x := by
  unfold goIdx
  have : ¬ ((i : Int) < 0) := by omega
  simp only [this, if_false, Int.toNat_natCast]
  have : b[i]? = some b[i] := List.getElem?_eq_getElem h
  rw [this]; exact ⟨_, rfl⟩

theorem goSlice_ok (b : Bytes) (i j : Int) (h0 : 0 ≤ i) (h1 : i ≤ j) (h2 : j ≤ b.length) :
    ∃ s, goSlice b i j = .ok s := by
  unfold goSlice
  have a1 : ¬ (i < 0 ∨ j < 0) := by omega
  have a2 : ¬ (j.toNat > b.length) := by omega
  have a3 : ¬ (i > j) := by omega
  simp only [a1, a2, a3, if_false]
  exact ⟨_, rfl⟩

theorem be16At_ok (b : Bytes) (i : Int) (h0 : 0 ≤ i) (h : i + 2 ≤ b.length) : ∃ n, be16At b i = .ok n := by
  unfold be16At
  obtain ⟨s, hs⟩ := goSlice_ok b i (i + 2) h0 (by omega) h
  rw [hs]; exact ⟨_, rfl⟩

/-- `GetNumberBytesInLengthHeader` never panics -/
theorem numLenBytes_total (b : Bytes) : (numLenBytes b).NoPanic := by
  unfold numLenBytes
  by_cases h : b.length < 2
  · simp [h, NoPanic, isPanic]
  · simp only [h, if_false]
    obtain ⟨x, hx⟩ := goIdx_ok b 1 (by omega)
    simp only [Int.cast_ofNat_Int] at hx
    show ((goIdx b 1) >>= _).NoPanic
    rw [show (goIdx b 1) = .ok x from hx]
    simp only [bind_ok]
    split <;> simp [NoPanic, isPanic]

/-- `GetLengthFromASN` never panics -/
theorem lengthFromASN_total (b : Bytes) : (lengthFromASN b).NoPanic := by
  unfold lengthFromASN
  by_cases h : b.length < 2
  · simp [h, NoPanic, isPanic]
  · simp only [h, if_false]
    obtain ⟨x, hx⟩ := goIdx_ok b 1 (by omega)
    simp only [Int.cast_ofNat_Int] at hx
    show ((goIdx b 1) >>= _).NoPanic
    rw [show (goIdx b 1) = .ok x from hx]
    simp only [bind_ok]
    by_cases h1 : x.toNat ≤ 127
    · simp [h1, NoPanic, isPanic]
    · simp only [h1, if_false]
      by_cases h2 : 2 + (x.toNat : Int) - 128 > b.length
      · simp [h2, NoPanic, isPanic]
      · simp only [h2, if_false]
        obtain ⟨s, hs⟩ := goSlice_ok b 2 (2 + (x.toNat : Int) - 128) (by omega) (by omega) (by omega)
        rw [hs]; simp [NoPanic, isPanic]

/-- the slicing of a kpasswd reply never panics, whatever lengths the reply announces -/
theorem replySlices_total (b : Bytes) : (replySlices b).NoPanic := by
  unfold replySlices
  by_cases h : b.length < 6
  · simp [h, NoPanic, isPanic]
  · simp only [h, if_false]
    obtain ⟨ml, hml⟩ := be16At_ok b 0 (by omega) (by omega)
    obtain ⟨ve, hve⟩ := be16At_ok b 2 (by omega) (by omega)
    obtain ⟨al, hal⟩ := be16At_ok b 4 (by omega) (by omega)
    rw [hml]; simp only [bind_ok]
    rw [hve]; simp only [bind_ok]
    by_cases hv : ve ≠ 1
    · simp [hv, NoPanic, isPanic]
    · simp only [hv, if_false]
      rw [hal]; simp only [bind_ok]
      by_cases hl : ml > b.length ∨ 6 + al > ml
      · simp [hl, NoPanic, isPanic]
      · simp only [hl, if_false]
        by_cases ha : al ≠ 0
        · rw [if_pos ha]
          obtain ⟨s1, h1⟩ := goSlice_ok b 6 (6 + (al : Int)) (by omega) (by omega) (by omega)
          obtain ⟨s2, h2⟩ := goSlice_ok b (6 + (al : Int)) ml (by omega) (by omega) (by omega)
          rw [h1]; simp only [bind_ok]
          rw [h2]; simp [NoPanic, isPanic]
        · rw [if_neg ha]
          obtain ⟨s1, h1⟩ := goSlice_ok b 6 ml (by omega) (by omega) (by omega)
          rw [h1]; simp [NoPanic, isPanic]

theorem parseResponse_total (b : Bytes) : (parseResponse b).NoPanic := by
  unfold parseResponse
  by_cases h : b.length < 2
  · simp [h, NoPanic, isPanic]
  · simp only [h, if_false]
    obtain ⟨c, hc⟩ := be16At_ok b 0 (by omega) (by omega)
    rw [hc]; simp only [bind_ok]
    unfold goSliceFrom
    obtain ⟨s, hs⟩ := goSlice_ok b 2 b.length (by omega) (by omega) (by omega)
    rw [hs]; simp [NoPanic, isPanic]

/-- the body / tag split of DecryptMessage never panics, for every length of input and every profile -/
theorem splitTag_total (ct : Bytes) (confLen macLen : Nat) : (splitTag ct confLen macLen).NoPanic := by
  unfold splitTag
  by_cases h : ct.length < confLen + macLen
  · simp [h, NoPanic, isPanic]
  · simp only [h, if_false]
    unfold goSliceTo goSliceFrom
    obtain ⟨s1, h1⟩ := goSlice_ok ct 0 ((ct.length : Int) - macLen) (by omega) (by omega) (by omega)
    obtain ⟨s2, h2⟩ := goSlice_ok ct ((ct.length : Int) - macLen) ct.length (by omega) (by omega) (by omega)
    rw [h1]; simp only [bind_ok]
    rw [h2]; simp [NoPanic, isPanic]

/-- what the TCP reply reader allocates is bounded by the bytes that arrive, whatever is announced -/
theorem tcpReply_bounded (announced arrived : Nat) : tcpReplyAlloc announced arrived ≤ arrived := by
  unfold tcpReplyAlloc; omega

/-- iteration counts above 2^24 are refused; those accepted are at most 2^24 -/
theorem iterations_bounded (n m : Nat) (h : iterationsAccepted n = some m) : m ≤ 16777216 := by
  unfold iterationsAccepted maxIterations at h
  split at h
  · simp at h
  · simp only [Option.some.injEq] at h; omega

/-- an s2kparams value of zero stands for 2^32 iterations and is refused like every count above the bound; every
    value that is accepted runs exactly the number of iterations it names, at least one -/
theorem zero_param_refused : iterationsAccepted (iterationsOfParam 0) = none := by decide

theorem param_accepted (p m : Nat) (h : iterationsAccepted (iterationsOfParam p) = some m) :
    m = p ∧ 1 ≤ m ∧ m ≤ 16777216 := by
  unfold iterationsAccepted iterationsOfParam maxIterations at h
  by_cases hp : p = 0
  · simp [hp] at h
  · simp only [hp, if_false] at h
    split at h
    · simp at h
    · simp only [Option.some.injEq] at h; omega

/-- before the repair a zero was accepted, as a count of no iterations at all -/
theorem v0_zero_param_accepted : iterationsAccepted (iterationsOfParam_v0 0) = some 0 := by decide

/-- the two fields of UPN_DNS_INFO are sliced without a panic, for every buffer (of any size) and every
    16-bit length and offset -/
theorem upnSlices_total (b : Bytes) (ul uo dl dO : Nat) : (upnSlices b ul uo dl dO).NoPanic := by
  unfold upnSlices
  by_cases h : uo + ul > b.length ∨ dO + dl > b.length
  · rw [if_pos h]; simp [NoPanic, isPanic]
  · rw [if_neg h]
    obtain ⟨u, hu⟩ := goSlice_ok b uo ((uo : Int) + ul) (by omega) (by omega) (by omega)
    obtain ⟨d, hd⟩ := goSlice_ok b dO ((dO : Int) + dl) (by omega) (by omega) (by omega)
    rw [hu]; simp only [bind_ok]
    rw [hd]; simp [NoPanic, isPanic]

/-- the unrepaired slicing panics on every buffer of 64 KiB or more that places a one-byte field at
    offset 0xffff: the uint16 end wraps to 0 -/
theorem upnSlices_v0_panics (b : Bytes) (h : b.length ≥ 65536) : (upnSlices_v0 b 1 65535 0 0).isPanic = true := by
  unfold upnSlices_v0
  have hc : ¬ (65535 + 1 > b.length ∨ 0 + 0 > b.length) := by omega
  rw [if_neg hc]
  have : goSlice b ((65535 : Nat) : Int) (((65535 + 1) % 65536 : Nat) : Int) = crash "slice bounds out of range (low > high)" := by
    unfold goSlice
    have a1 : ¬ (((65535 : Nat) : Int) < 0 ∨ (((65535 + 1) % 65536 : Nat) : Int) < 0) := by omega
    have a2 : ¬ ((((65535 + 1) % 65536 : Nat) : Int).toNat > b.length) := by omega
    have a3 : ((65535 : Nat) : Int) > (((65535 + 1) % 65536 : Nat) : Int) := by omega
    rw [if_neg a1, if_neg a2, if_pos a3]
  rw [this]
  rfl

/-! ### the record walk of keytab.Unmarshal -/

theorem readI32_total (b : Bytes) (n : Int) (le : Bool) : (readI32 b n le).NoPanic := by
  unfold readI32
  by_cases h0 : n < 0
  · rw [if_pos h0]; rfl
  · rw [if_neg h0]
    by_cases h1 : n + 4 > b.length
    · rw [if_pos h1]; rfl
    · rw [if_neg h1]
      obtain ⟨s, hs⟩ := goSlice_ok b n (n + 4) (by omega) (by omega) (by omega)
      rw [hs]; rfl

/-- **walk_total.** the walk over the records of a keytab never panics: not on lengths that point past the
    end, not on holes of any size (the least 32-bit value included, whose negation is itself), not on a
    file that ends inside a length field -/
theorem walk_total (b : Bytes) (le : Bool) (f : Nat) (n l : Int) : (walk b le f n l).NoPanic := by
  induction f generalizing n l with
  | zero => rfl
  | succ f ih =>
    unfold walk
    by_cases hl0 : l = 0
    · rw [if_pos hl0]; rfl
    · rw [if_neg hl0]
      -- the continuation after a step that did not fail
      have cont : ∀ (n' : Int) (es : List Bytes),
          (if n' < 0 ∨ n' > b.length then (ok es : Outcome (List Bytes))
           else goSliceFrom b n' >>= fun tail =>
             if tail.length < 4 then ok es
             else readI32 b n' le >>= fun (l', n'') => walk b le f n'' l' >>= fun rest => ok (es ++ rest)).NoPanic := by
        intro n' es
        by_cases hb : n' < 0 ∨ n' > b.length
        · rw [if_pos hb]; rfl
        · rw [if_neg hb]
          unfold goSliceFrom
          obtain ⟨t, ht⟩ := goSlice_ok b n' b.length (by omega) (by omega) (by omega)
          rw [ht]; simp only [bind_ok]
          by_cases h4 : t.length < 4
          · rw [if_pos h4]; rfl
          · rw [if_neg h4]
            apply noPanic_bind _ _ (readI32_total b n' le)
            intro p _
            apply noPanic_bind _ _ (ih p.2 p.1)
            intro rest _
            rfl
      by_cases hneg : l < 0
      · simp only [hneg, if_true, bind_ok]
        exact cont _ _
      · simp only [hneg, if_false]
        by_cases hn : n < 0
        · simp only [hn, if_true, bind_err]; rfl
        · simp only [hn, if_false]
          by_cases hs : n + l > b.length
          · simp only [hs, if_true, bind_err]; rfl
          · simp only [hs, if_false]
            obtain ⟨eb, he⟩ := goSlice_ok b n (n + l) (by omega) (by omega) (by omega)
            rw [he]; simp only [bind_ok]
            exact cont _ _

/-- **ktRecords_total.** -/
theorem ktRecords_total (b : Bytes) (host : Bool) : (ktRecords b host).NoPanic := by
  unfold ktRecords
  by_cases h : b.length < 2
  · rw [if_pos h]; rfl
  · rw [if_neg h]
    obtain ⟨x0, h0⟩ := goIdx_ok b 0 (by omega)
    obtain ⟨x1, h1⟩ := goIdx_ok b 1 (by omega)
    simp only [Int.cast_ofNat_Int] at h0 h1
    show ((goIdx b 0) >>= _).NoPanic
    rw [h0]; simp only [bind_ok]
    by_cases hb : x0 ≠ 5
    · rw [if_pos hb]; rfl
    · rw [if_neg hb]
      show ((goIdx b 1) >>= _).NoPanic
      rw [h1]; simp only [bind_ok]
      by_cases hv : x1 ≠ 1 ∧ x1 ≠ 2
      · rw [if_pos hv]; rfl
      · rw [if_neg hv]
        by_cases h2 : b.length = 2
        · rw [if_pos h2]; rfl
        · rw [if_neg h2]
          apply noPanic_bind _ _ (readI32_total b 2 _)
          intro p _
          exact walk_total b _ _ _ _

/-- a hole of the least 32-bit length sends the position below zero and ends the walk without a panic -/
example : walk [5, 2, 0x80, 0, 0, 0, 1, 2, 3, 4] false 10 6 (-2147483648) = ok [] := by decide
/-- two records, a hole between them -/
example : ktRecords [5, 2, 0, 0, 0, 1, 9, 0xff, 0xff, 0xff, 0xfe, 0, 0, 0, 0, 0, 2, 7, 8] false = ok [[9], [7, 8]] := by decide

/-! ### the unrepaired code, by witness -/

theorem v0_witnesses :
    (numLenBytes_v0 [0x30]).isPanic = true ∧ (lengthFromASN_v0 []).isPanic = true ∧
    (lengthFromASN_v0 [0x30, 0x84, 1]).isPanic = true ∧
    (replySlices_v0 []).isPanic = true ∧ (replySlices_v0 [0, 40, 0, 1, 0, 0, 1]).isPanic = true ∧
    (parseResponse_v0 []).isPanic = true ∧ (splitTag_v0 [1, 2, 3] 12).isPanic = true ∧
    tcpReplyAlloc_v0 4294967295 0 = 4294967295 := by
  decide

/-! non-vacuity: well-formed inputs go through -/
example : replySlices [0, 9, 0, 1, 0, 0, 7, 8, 9] = .ok (.krbError [7, 8, 9]) := by decide
example : lengthFromASN [0x30, 0x82, 1, 0] = .ok 256 := by decide
example : splitTag [1, 2, 3, 4, 5] 2 2 = .ok ([1, 2, 3], [4, 5]) := by decide
example : upnSlices [1, 2, 3, 4, 5] 2 1 1 4 = .ok ([2, 3], [5]) := by decide

end Krb.C04
