/-
  C09 — the client accepts a KDC reply only if it answers the request it sent.
-/
import Krb.Model.KdcRep
namespace Krb.C09
open Krb Krb.KdcRep

/-- An AS reply is accepted exactly when RFC 4120 §3.1.5 holds — for every request, reply, clock and skew. -/
theorem as_accept_iff (skew now : Int) (r : Req) (o : Outer) (enc : Option Enc) :
    asVerify skew now r o enc = .ok ↔ Spec.ValidAS skew now r o enc := by
  unfold asVerify Spec.ValidAS
  cases enc with
  | none => by_cases h1 : o.cname = r.cname <;> by_cases h2 : o.crealm = r.realm <;> simp [h1, h2]
  | some e =>
    by_cases h1 : o.cname = r.cname <;> by_cases h2 : o.crealm = r.realm <;>
    by_cases h3 : e.nonce = r.nonce <;> by_cases h4 : e.sname = r.sname <;>
    by_cases h5 : e.srealm = r.realm <;>
    by_cases h6 : r.addrs = [] <;> by_cases h6' : AddrsEqual e.caddr r.addrs <;>
    by_cases h7 : Within skew now e.authUs <;>
    simp [h1, h2, h3, h4, h5, h6, h6', h7]

/-- A TGS reply is accepted by the exchange exactly when RFC 4120 §3.3.4 holds. -/
theorem tgs_accept_iff (skew now : Int) (cr : Bytes) (r : Req) (o : Outer) (enc : Option Enc) :
    tgsVerify skew now (some cr) r o enc = .ok ↔ Spec.ValidTGS skew now cr r o enc := by
  unfold tgsVerify Spec.ValidTGS
  cases enc with
  | none => simp
  | some e =>
    by_cases h1 : o.cname = r.cname <;> by_cases h2 : o.tktRealm = r.realm <;>
    by_cases h3 : e.nonce = r.nonce <;> by_cases h5 : e.srealm = r.realm <;>
    by_cases h6 : AddrsSubset e.caddr r.addrs <;>
    by_cases h7 : TgsTimeOk skew now e <;>
    by_cases h8 : o.crealm = cr <;> by_cases h9 : o.tktSName = [] <;>
    simp [h1, h2, h3, h5, h6, h7, h8, h9]

/-- a reply to an earlier request (another nonce) is rejected, whatever else it says -/
theorem as_replayed_rejected (skew now : Int) (r : Req) (o : Outer) (e : Enc) (h : e.nonce ≠ r.nonce) :
    asVerify skew now r o (some e) ≠ .ok := by
  rw [Ne, as_accept_iff]; rintro ⟨e', he, hn, _⟩; cases he; exact h hn

theorem tgs_replayed_rejected (skew now : Int) (cr : Option Bytes) (r : Req) (o : Outer) (e : Enc) (h : e.nonce ≠ r.nonce) :
    tgsVerify skew now cr r o (some e) ≠ .ok := by
  unfold tgsVerify
  by_cases h1 : o.cname ≠ r.cname <;> by_cases h2 : o.tktRealm ≠ r.realm <;> simp [h1, h2, h]

/-- a reply that does not decrypt under the client's key is rejected -/
theorem other_key_rejected (skew now : Int) (cr : Option Bytes) (r : Req) (o : Outer) :
    asVerify skew now r o none ≠ .ok ∧ tgsVerify skew now cr r o none ≠ .ok := by
  constructor
  · rw [Ne, as_accept_iff]; rintro ⟨_, he, _⟩; cases he
  · simp [tgsVerify]

/-- every single altered field makes an otherwise valid AS reply invalid -/
theorem as_altered_rejected (skew now : Int) (r : Req) (o : Outer) (e : Enc)
    (h : o.cname ≠ r.cname ∨ o.crealm ≠ r.realm ∨ e.sname ≠ r.sname ∨ e.srealm ≠ r.realm ∨
         (r.addrs ≠ [] ∧ ¬ AddrsEqual e.caddr r.addrs) ∨ ¬ Within skew now e.authUs) :
    asVerify skew now r o (some e) ≠ .ok := by
  rw [Ne, as_accept_iff]
  rintro ⟨e', he, _, h1, h2, h3, h4, h5, h6⟩
  cases he
  rcases h with h | h | h | h | h | h
  · exact h h1
  · exact h h2
  · exact h h3
  · exact h h4
  · exact h.2 (h5 h.1)
  · exact h h6

/-- one requested address that the reply does not list is enough: whichever position it has in the request, and
    whatever the other addresses of the reply are -/
theorem as_missing_address_rejected (skew now : Int) (r : Req) (o : Outer) (e : Enc) (a : Addr)
    (ha : a ∈ r.addrs) (hn : a ∉ e.caddr) :
    asVerify skew now r o (some e) ≠ .ok := by
  apply as_altered_rejected
  right; right; right; right; left
  refine ⟨List.ne_nil_of_mem ha, ?_⟩
  intro h
  exact hn (h.2 a ha)

/-- … and so is a reply that lists more or fewer addresses than were asked for -/
theorem as_address_count_rejected (skew now : Int) (r : Req) (o : Outer) (e : Enc)
    (hne : r.addrs ≠ []) (hl : e.caddr.length ≠ r.addrs.length) :
    asVerify skew now r o (some e) ≠ .ok := by
  apply as_altered_rejected
  right; right; right; right; left
  exact ⟨hne, fun h => hl h.1⟩

/-- the KDC time bound is decided exactly at the limit -/
theorem skew_boundaries (skew now : Int) :
    Within skew now (now - skew) ∧ Within skew now (now + skew) ∧
    ¬ Within skew now (now - skew - 1) ∧ ¬ Within skew now (now + skew + 1) ∨ skew < 0 := by
  unfold Within
  omega

/-- a KRB-ERROR reply reaches the caller as an error carrying the KDC's code, never as success -/
theorem krberror_surfaced (code : Int) (p : Option Verdict) : exchange (some code) p = .krbError code := rfl

theorem success_only_if_verified (k : Option Int) (p : Option Verdict) (h : exchange k p = .success) :
    k = none ∧ p = some .ok := by
  unfold exchange at h
  cases k with
  | some c => simp at h
  | none =>
    cases p with
    | none => simp at h
    | some v => cases v <;> simp at h ⊢

/-- before 2d… the TGS exchange accepted a reply naming another client realm -/
theorem v0_counterexample :
    ∃ r o e, tgsVerify_v0 300 0 r o (some e) = .ok ∧ tgsVerify 300 0 (some [65]) r o (some e) ≠ .ok :=
  ⟨{ cname := [[117]], realm := [65], nonce := 7, sname := [[115]], addrs := [] },
   { cname := [[117]], crealm := [66], tktRealm := [65], tktSName := [[115]] },
   { nonce := 7, sname := [[115]], srealm := [65], caddr := [], authUs := 0, startUs := some 0 }, by decide⟩

/-- non-vacuity: a valid AS reply and a valid TGS reply exist -/
example : Spec.ValidAS 300 10
    { cname := [[117]], realm := [65], nonce := 7, sname := [[107]], addrs := [(2, [10, 0, 0, 1])] }
    { cname := [[117]], crealm := [65], tktRealm := [65], tktSName := [[107]] }
    (some { nonce := 7, sname := [[107]], srealm := [65], caddr := [(2, [10, 0, 0, 1])], authUs := 0, startUs := none }) := by
  rw [← as_accept_iff]; decide
example : Spec.ValidTGS 300 10 [65]
    { cname := [[117]], realm := [65], nonce := 7, sname := [[115]], addrs := [] }
    { cname := [[117]], crealm := [65], tktRealm := [65], tktSName := [[115]] }
    (some { nonce := 7, sname := [[115]], srealm := [65], caddr := [], authUs := -100000, startUs := some 0 }) := by
  rw [← tgs_accept_iff]; decide

end Krb.C09
