/-
  C07 — Keyed checksums equal the RFC definitions and verify only exact matches.

    * `verify_iff`      : verification is true exactly for the RFC checksum value (length and content)
    * `checksum_length` : every checksum has its nominal length, hence
    * `no_prefix`, `no_extension`, `no_bitflip` : unconditional corollaries
    * `other_data_collision` : accepting a checksum for other data exhibits an HMAC collision
    * `table_facts`     : (T) the checksum-type → etype table read from the current Go code equals
                          the IANA assignments, and no other identifier in [−1000, 1000] is accepted
  "Code value = RFC value for every input" is carried by the correspondence run against `checksum`.
-/
import Krb.Crypto.Spec
import Krb.Gen.CryptoFacts
import Krb.Props.C05
namespace Krb.C07

open Krb Krb.Crypto

variable {P : Prims}

/-- **C07 verify_iff.** -/
theorem verify_iff (et : EType) (key : Bytes) (usage : Nat) (data ck : Bytes) :
    verifyChecksum P et key usage data ck = true ↔ ck = checksum P et key usage data := by
  simp [verifyChecksum]

/-- **C07 checksum_length.** -/
theorem checksum_length (hP : P.Lawful) (et : EType) (key : Bytes) (usage : Nat) (data : Bytes) :
    (checksum P et key usage data).length = et.macLen := by
  cases et <;> simp [checksum, hmacOf, EType.macLen, hP.hmacSha1_len, hP.hmacSha256_len,
    hP.hmacSha384_len, hP.hmacMd5_len]

/-- **C07 no_prefix / no_extension.** Anything whose length differs from the nominal one is refused:
    every proper prefix and every extension of the right checksum in particular. -/
theorem wrong_length_rejected (hP : P.Lawful) (et : EType) (key : Bytes) (usage : Nat)
    (data ck : Bytes) (h : ck.length ≠ et.macLen) :
    verifyChecksum P et key usage data ck = false := by
  cases hv : verifyChecksum P et key usage data ck with
  | false => rfl
  | true =>
    rw [verify_iff] at hv
    rw [hv, checksum_length hP] at h
    exact absurd rfl h

theorem no_prefix (hP : P.Lawful) (et : EType) (key : Bytes) (usage : Nat) (data : Bytes) (n : Nat)
    (h : n < et.macLen) :
    verifyChecksum P et key usage data ((checksum P et key usage data).take n) = false := by
  apply wrong_length_rejected hP
  rw [List.length_take, checksum_length hP]; omega

theorem no_extension (hP : P.Lawful) (et : EType) (key : Bytes) (usage : Nat) (data ext : Bytes)
    (h : ext ≠ []) :
    verifyChecksum P et key usage data (checksum P et key usage data ++ ext) = false := by
  apply wrong_length_rejected hP
  rw [List.length_append, checksum_length hP]
  have : ext.length ≠ 0 := by intro e; exact h (List.eq_nil_of_length_eq_zero e)
  omega

/-- **C07 no_bitflip.** Any value different from the checksum is refused. -/
theorem no_bitflip (et : EType) (key : Bytes) (usage : Nat) (data ck : Bytes)
    (h : ck ≠ checksum P et key usage data) : verifyChecksum P et key usage data ck = false := by
  cases hv : verifyChecksum P et key usage data ck with
  | false => rfl
  | true => rw [verify_iff] at hv; exact absurd hv h

/-- **C07 other_data_collision.** A checksum computed for `data` is accepted for `data'` only if the
    RFC checksum function collides on the two (an HMAC collision for the derived key). -/
theorem other_data_collision (et : EType) (key : Bytes) (usage : Nat) (data data' : Bytes)
    (h : verifyChecksum P et key usage data' (checksum P et key usage data) = true) :
    checksum P et key usage data = checksum P et key usage data' := by
  rw [verify_iff] at h; exact h

/-- the IANA assignments (Kerberos Checksum Type Numbers) for the supported families, by id -/
def ianaSorted : List (Int × Nat) :=
  [(-138, 23), (12, 16), (15, 17), (16, 18), (19, 19), (20, 20)]

/-- the sorted table is the registry table of the specification -/
theorem ianaSorted_perm :
    (∀ p ∈ ianaSorted, p ∈ ianaChksumTable.map (fun (c, et) => (c, et.id))) ∧
    (∀ p ∈ ianaChksumTable.map (fun (c, et) => (c, et.id)), p ∈ ianaSorted) := by decide

/-- **C07 table_facts (T).** `crypto.GetChksumEtype` of the current tree accepts exactly the IANA
    identifiers and maps each to the family the registry assigns. -/
theorem table_facts : Gen.chksumEtype = ianaSorted := by decide

/-- each family's own checksum type (GetHashID) is the IANA one -/
theorem hashid_facts :
    Gen.etypeProfile.map (fun (id, _, _, _, _, _, _, ck) => (ck, id)) =
      [(12, 16), (15, 17), (16, 18), (19, 19), (20, 20), (-138, 23)] := by decide

/-! non-vacuity -/
example : verifyChecksum C05.toy .aes128 [1] 5 [2, 3] (checksum C05.toy .aes128 [1] 5 [2, 3]) = true := by
  rw [verify_iff]

end Krb.C07
