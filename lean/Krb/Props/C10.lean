/-
  C10 — tickets obtained and cached by the client are the right ones and still valid.

  Theorems over `Krb.Client` (the model of the client's bookkeeping; the KDC is an arbitrary list of
  answers, so every statement holds against every KDC, conformant or not, unless it says otherwise).
-/
import Krb.Model.Client
namespace Krb.C10
open Krb Krb.Client

/-! ### the cache window -/

/-- a cached ticket is handed out without asking the KDC exactly while the clock is strictly inside its
    validity period -/
theorem cache_serve_iff (now : Int) (e : Tkt) :
    cacheDecision now e = .serve ↔ e.startNs < now ∧ now < e.endNs := by
  unfold cacheDecision
  by_cases h : e.startNs < now ∧ now < e.endNs
  · simp [h]
  · simp only [h, if_false, iff_false]
    split <;> simp

/-- outside the window a renewal is attempted exactly while the clock is before renew-till -/
theorem cache_renew_iff (now : Int) (e : Tkt) :
    cacheDecision now e = .renew ↔ ¬ (e.startNs < now ∧ now < e.endNs) ∧ ∃ rt, e.renewTill = some rt ∧ now < rt := by
  unfold cacheDecision before?
  by_cases h : e.startNs < now ∧ now < e.endNs
  · simp [h]
  · simp only [h, if_false, not_false_eq_true, true_and]
    cases e.renewTill with
    | none => simp
    | some rt => by_cases h2 : now < rt <;> simp [h2]

/-! ### what one exchange does, whatever the KDC answers -/

theorem takeReply_mem (q : Req) (l : List (Req × Reply)) (x : Reply) (rest : List (Req × Reply))
    (h : takeReply q l = some (x, rest)) : (q, x) ∈ l ∧ ∀ p ∈ rest, p ∈ l := by
  induction l generalizing x rest with
  | nil => simp [takeReply] at h
  | cons p l ih =>
    obtain ⟨q', y⟩ := p
    unfold takeReply at h
    by_cases hq : q' = q
    · simp only [hq, if_true, Option.some.injEq, Prod.mk.injEq] at h
      obtain ⟨h1, h2⟩ := h
      subst h1 h2 hq
      exact ⟨by simp, fun p hp => by simp [hp]⟩
    · simp only [hq, if_false] at h
      cases ht : takeReply q l with
      | none => simp [ht] at h
      | some v =>
        obtain ⟨y', r'⟩ := v
        simp only [ht, Option.map_some, Option.some.injEq, Prod.mk.injEq] at h
        obtain ⟨h1, h2⟩ := h
        subst h1 h2
        obtain ⟨m1, m2⟩ := ih y' r' ht
        refine ⟨by simp [m1], fun p hp => ?_⟩
        simp only [List.mem_cons] at hp ⊢
        rcases hp with hp | hp
        · exact Or.inl hp
        · exact Or.inr (m2 p hp)

/-- `send` appends exactly one request, only shrinks the answers and leaves the state alone -/
theorem send_spec (r : Run) (q : Req) :
    (send r q).1.sent = r.sent ++ [q] ∧ (send r q).1.st = r.st ∧ (∀ p ∈ (send r q).1.replies, p ∈ r.replies) ∧
    (∀ x, (send r q).2 = some x → (q, x) ∈ r.replies) := by
  unfold send
  cases h : takeReply q r.replies with
  | none => simp
  | some v =>
    obtain ⟨x, rest⟩ := v
    obtain ⟨m1, m2⟩ := takeReply_mem q r.replies x rest h
    refine ⟨rfl, rfl, m2, ?_⟩
    intro y hy
    simp only [Option.some.injEq] at hy
    subst hy
    exact m1

/-! ### the AS exchange -/

theorem send_sent (r : Run) (q : Req) : (send r q).1.sent = r.sent ++ [q] := by
  unfold send; split <;> rfl

theorem send_st (r : Run) (q : Req) : (send r q).1.st = r.st := by
  unfold send; split <;> rfl

/-- One AS exchange sends one request, or two: the second one only after KDC_ERR_PREAUTH_REQUIRED / FAILED,
    and it always carries the encrypted timestamp. -/
theorem asExchange_requests (r : Run) :
    let q : Req := { kind := .as, realm := r.st.clientRealm, sname := [krbtgt, r.st.clientRealm], pa := r.st.assumePA }
    (asExchange r).1.sent = r.sent ++ [q] ∨
    (asExchange r).1.sent = r.sent ++ [q, { q with pa := true }] := by
  intro q
  unfold asExchange
  simp only
  generalize hs : send r q = s1
  have h1 := send_sent r q
  rw [hs] at h1
  obtain ⟨r1, o1⟩ := s1
  simp only at h1
  cases o1 with
  | none => left; simpa using h1
  | some x =>
    cases x with
    | issued t => left; simpa using h1
    | error code =>
      simp only
      split
      · right
        generalize hs2 : send { r1 with st := { r1.st with assumePA := true } } { q with pa := true } = s2
        have h2 := send_sent { r1 with st := { r1.st with assumePA := true } } { q with pa := true }
        rw [hs2] at h2
        obtain ⟨r3, o3⟩ := s2
        simp only at h2
        have : r3.sent = r.sent ++ [q, { q with pa := true }] := by
          rw [h2, h1]; simp
        cases o3 with
        | none => simpa using this
        | some y => cases y <;> simpa using this
      · left; simpa using h1

/-- A ticket an AS exchange returns is the KDC's answer to one of the (at most two) AS requests of that
    exchange, both for krbtgt of the client's own realm. -/
theorem asExchange_ticket (r : Run) (t : Tkt) (h : (asExchange r).2 = some t) :
    ∃ q : Req, (q, Reply.issued t) ∈ r.replies ∧ q.kind = .as ∧ q.realm = r.st.clientRealm ∧
      q.sname = [krbtgt, r.st.clientRealm] := by
  unfold asExchange at h
  simp only at h
  have sp := send_spec r { kind := .as, realm := r.st.clientRealm, sname := [krbtgt, r.st.clientRealm], pa := r.st.assumePA }
  generalize hs : send _ _ = s1 at h sp
  obtain ⟨_, _, m1, a1⟩ := sp
  obtain ⟨r1, o1⟩ := s1
  cases o1 with
  | none => simp at h
  | some x =>
    cases x with
    | issued t' =>
      simp only [Option.some.injEq] at h
      subst h
      exact ⟨_, a1 _ rfl, rfl, rfl, rfl⟩
    | error code =>
      simp only at h
      split at h
      · have sp2 := send_spec { st := { clientRealm := r1.st.clientRealm, sessions := r1.st.sessions, cache := r1.st.cache, assumePA := true }, sent := r1.sent, replies := r1.replies }
          { kind := .as, realm := r.st.clientRealm, sname := [krbtgt, r.st.clientRealm], pa := true }
        generalize hs2 : send _ _ = s2 at h sp2
        obtain ⟨_, _, _, a2⟩ := sp2
        obtain ⟨r3, o3⟩ := s2
        cases o3 with
        | none => simp at h
        | some y =>
          cases y with
          | issued t' =>
            simp only [Option.some.injEq] at h
            subst h
            exact ⟨_, m1 _ (a2 _ rfl), rfl, rfl, rfl⟩
          | error c => simp at h
      · simp at h

/-- One TGS exchange, referrals included: it sends between one and `fuel` requests, every one of them
    for the name that was asked for, and a ticket it returns is the KDC's answer to one of them. -/
theorem tgsExchange_spec (fuel : Nat) (r : Run) (now : Int) (sname : Name) (kdc : Bytes) (tgt : Tkt) (renewal : Bool) :
    ∃ l : List Req, (tgsExchange fuel r now sname kdc tgt renewal).1.sent = r.sent ++ l ∧
      l.length ≤ fuel ∧ (0 < fuel → l ≠ []) ∧ (∀ q ∈ l, q.sname = sname ∧ q.kind = .tgs ∧ q.renew = renewal) ∧
      (∀ p ∈ (tgsExchange fuel r now sname kdc tgt renewal).1.replies, p ∈ r.replies) ∧
      (∀ t, (tgsExchange fuel r now sname kdc tgt renewal).2 = some t →
        ∃ q ∈ l, (q, Reply.issued t) ∈ r.replies) := by
  induction fuel generalizing r kdc tgt with
  | zero => exact ⟨[], by simp [tgsExchange]⟩
  | succ f ih =>
    unfold tgsExchange
    obtain ⟨hs, _, hr, hx⟩ := send_spec r { kind := .tgs, realm := kdc, sname, renew := renewal, tktId := tgt.id }
    generalize hq : ({ kind := .tgs, realm := kdc, sname, renew := renewal, tktId := tgt.id } : Req) = q at hs hr hx ⊢
    have hqs : q.sname = sname ∧ q.kind = .tgs ∧ q.renew = renewal := by subst hq; exact ⟨rfl, rfl, rfl⟩
    cases hsend : send r q with
    | mk r1 ans =>
      rw [hsend] at hs hr hx
      simp only at hs hr hx
      have base : ∃ l : List Req, r1.sent = r.sent ++ l ∧ l.length ≤ f + 1 ∧ (0 < f + 1 → l ≠ []) ∧
          (∀ q' ∈ l, q'.sname = sname ∧ q'.kind = .tgs ∧ q'.renew = renewal) ∧ (∀ p ∈ r1.replies, p ∈ r.replies) :=
        ⟨[q], hs, by simp, by simp, by simpa using hqs, hr⟩
      cases ans with
      | none =>
        obtain ⟨l, h1, h2, h3, h4, h5⟩ := base
        exact ⟨l, h1, h2, h3, h4, h5, by simp⟩
      | some a =>
        cases a with
        | error c =>
          obtain ⟨l, h1, h2, h3, h4, h5⟩ := base
          exact ⟨l, h1, h2, h3, h4, h5, by simp⟩
        | issued t =>
          have hmem : (q, Reply.issued t) ∈ r.replies := hx _ rfl
          simp only
          cases hsn : t.sname with
          | nil =>
            obtain ⟨l, h1, h2, h3, h4, h5⟩ := base
            exact ⟨l, h1, h2, h3, h4, h5, by simp⟩
          | cons first rest =>
            simp only
            by_cases href : first = krbtgt ∧ first :: rest ≠ sname
            · rw [if_pos href]
              by_cases hf : f = 0
              · rw [if_pos hf]
                obtain ⟨l, h1, h2, h3, h4, h5⟩ := base
                exact ⟨l, h1, by omega, h3, h4, h5, by simp⟩
              · rw [if_neg hf]
                obtain ⟨l', g1, g2, g3, g4, g5, g6⟩ :=
                  ih { r1 with st := addSession r1.st now t } ((first :: rest).getLast?.getD []) t
                refine ⟨q :: l', ?_, by simp; omega, by simp, ?_, ?_, ?_⟩
                · rw [g1]; simp [hs]
                · intro q' hq'
                  simp only [List.mem_cons] at hq'
                  rcases hq' with hq' | hq'
                  · subst hq'; exact hqs
                  · exact g4 q' hq'
                · intro p hp; exact hr p (g5 p hp)
                · intro t' ht'
                  obtain ⟨q', hq'l, hq'm⟩ := g6 t' ht'
                  exact ⟨q', by simp [hq'l], hr _ hq'm⟩
            · rw [if_neg href]
              obtain ⟨l, h1, h2, h3, h4, h5⟩ := base
              refine ⟨[q], hs, by simp, by simp, by simpa using hqs, hr, ?_⟩
              intro t' ht'
              simp only [Option.some.injEq] at ht'
              subst ht'
              exact ⟨q, by simp, hmem⟩

/-- referral chains are followed only up to a fixed bound: one exchange sends at most 7 requests -/
theorem referral_bound (r : Run) (now : Int) (sname : Name) (kdc : Bytes) (tgt : Tkt) (renewal : Bool) :
    (tgsExchange referralFuel r now sname kdc tgt renewal).1.sent.length ≤ r.sent.length + 7 := by
  obtain ⟨l, h1, h2, _⟩ := tgsExchange_spec referralFuel r now sname kdc tgt renewal
  rw [h1]; simp [referralFuel] at h2 ⊢; omega

/-! ### the cache path of GetServiceTicket -/

/-- A ticket comes out of the cache path without a request to the KDC only while the clock is inside
    its validity period; outside it the KDC is asked (renewal) or nothing is returned. -/
theorem getCached_spec (r : Run) (now : Int) (spn : Bytes) (r' : Run) (t : Tkt)
    (h : getCached r now spn = (r', some t)) :
    (r' = r ∧ cacheGet r.st spn = some t ∧ t.startNs < now ∧ now < t.endNs) ∨
    (∃ e l, cacheGet r.st spn = some e ∧ ¬ (e.startNs < now ∧ now < e.endNs) ∧ r'.sent = r.sent ++ l ∧ l ≠ [] ∧
      ∀ q ∈ l, q.renew = true ∧ q.sname = e.sname) := by
  unfold getCached at h
  cases hc : cacheGet r.st spn with
  | none => simp [hc] at h
  | some e =>
    simp only [hc] at h
    cases hd : cacheDecision now e with
    | serve =>
      simp only [hd, Prod.mk.injEq, Option.some.injEq] at h
      obtain ⟨h1, h2⟩ := h
      subst h1 h2
      exact Or.inl ⟨rfl, rfl, (cache_serve_iff now e).mp hd⟩
    | miss => simp [hd] at h
    | renew =>
      simp only [hd] at h
      obtain ⟨l, g1, _, g3, g4, _, _⟩ := tgsExchange_spec referralFuel r now e.sname e.issuer e true
      have hne : ¬ (e.startNs < now ∧ now < e.endNs) := ((cache_renew_iff now e).mp hd).1
      cases hx : tgsExchange referralFuel r now e.sname e.issuer e true with
      | mk r1 res =>
        rw [hx] at h g1
        cases res with
        | none => simp at h
        | some t1 =>
          simp only [Prod.mk.injEq] at h
          obtain ⟨h1, _⟩ := h
          subst h1
          exact Or.inr ⟨e, l, rfl, hne, g1, g3 (by simp [referralFuel]), fun q hq => ⟨(g4 q hq).2.2, (g4 q hq).1⟩⟩

/-- `GetServiceTicket`: a cache hit is returned as it is, without any request -/
theorem cache_hit_no_request (r : Run) (now : Int) (sname : Name) (resolved : Bytes) (e : Tkt)
    (hc : cacheGet r.st (spnOf sname) = some e) (hv : e.startNs < now ∧ now < e.endNs) :
    getServiceTicket r now sname resolved = (r, some e) := by
  have hd := (cache_serve_iff now e).mpr hv
  simp [getServiceTicket, getCached, hc, hd]

/-! ### cache keys -/

/-- every cache entry is filed under the name of its own ticket -/
def CacheOK (s : State) : Prop := ∀ p ∈ s.cache, p.1 = spnOf p.2.sname

theorem cachePut_ok (s : State) (t : Tkt) (h : CacheOK s) : CacheOK (cachePut s t) := by
  intro p hp
  simp only [cachePut, List.mem_cons, List.mem_filter] at hp
  rcases hp with hp | hp
  · subst hp; rfl
  · exact h p hp.1

theorem cacheGet_ok (s : State) (k : Bytes) (t : Tkt) (h : CacheOK s) (hg : cacheGet s k = some t) :
    spnOf t.sname = k := by
  unfold cacheGet at hg
  cases hf : s.cache.find? (·.1 = k) with
  | none => simp [hf] at hg
  | some p =>
    simp only [hf, Option.map_some, Option.some.injEq] at hg
    have hm := List.mem_of_find?_eq_some hf
    have hk := List.find?_some hf
    simp only [decide_eq_true_eq] at hk
    rw [← hg, ← h p hm, hk]

/-- a ticket served from the cache for an SPN is a ticket for that SPN -/
theorem cache_hit_right_name (r : Run) (now : Int) (sname : Name) (r' : Run) (t : Tkt) (hok : CacheOK r.st)
    (h : getCached r now (spnOf sname) = (r', some t)) (hsame : r' = r) : spnOf t.sname = spnOf sname := by
  rcases getCached_spec r now (spnOf sname) r' t h with ⟨_, hc, _⟩ | ⟨e, l, _, _, hs, hl, _⟩
  · exact cacheGet_ok r.st _ t hok hc
  · subst hsame
    exfalso
    have : l = [] := by simpa using hs
    exact hl this

/-! ### the auto-renewal timer -/

/-- the renewal goroutine wakes up strictly before the session ends, and not in the past -/
theorem timer_before_end (now endNs t : Int) (h : timerFor now endNs = some t) : now ≤ t ∧ t < endNs := by
  unfold timerFor at h
  split at h
  · simp at h
  · simp only [Option.some.injEq] at h
    omega

/-- it ends when nothing (at most a nanosecond) is left to wait for: no zero-length waits -/
theorem timer_none_iff (now endNs : Int) : timerFor now endNs = none ↔ endNs - now ≤ 1 := by
  unfold timerFor
  split <;> simp_all

/-- a TGT with more than a sixth of its life left is used as it is -/
theorem session_used (r : Run) (now : Int) (realm : Bytes) (s : Sess) (fuel : Nat)
    (hs : getSess r.st realm = some s) (hl : s.endNs - now > (s.endNs - s.authNs) / 6) :
    ensureValidSession (fuel + 1) r now realm = (r, true) := by
  simp [ensureValidSession, hs, hl]

/-! ### non-vacuity: a recorded answer is consumed and cached; the second request is a cache hit -/

def tSvc : Tkt := { id := 2, issuer := [65], sname := [[72], [104]], authNs := 0, startNs := 0, endNs := 1000, renewTill := none }
def tTgt : Tkt := { id := 1, issuer := [65], sname := [krbtgt, [65]], authNs := 0, startNs := 0, endNs := 6000, renewTill := none }
def st0 : State := addSession { clientRealm := [65] } 0 tTgt
def q0 : Req := { kind := .tgs, realm := [65], sname := [[72], [104]], tktId := 1 }

example : (getServiceTicket { st := st0, replies := [(q0, .issued tSvc)] } 10 [[72], [104]] []).2 = some tSvc := by
  decide +kernel
example : (getServiceTicket { (getServiceTicket { st := st0, replies := [(q0, .issued tSvc)] } 10 [[72], [104]] []).1 with sent := [] }
    20 [[72], [104]] []).1.sent = [] := by decide +kernel
example : cacheGet (getServiceTicket { st := st0, replies := [(q0, .issued tSvc)] } 10 [[72], [104]] []).1.st (spnOf [[72], [104]]) = some tSvc := by
  decide +kernel

end Krb.C10
