/-
  C15 — Credential cache files of every format version parse to what was written.

    * `reads_spec` : for versions 1-4 (and, for the native-order versions 1/2, both byte orders) the
                     model of `CCache.Unmarshal` reads every well-formed file rendered by the
                     independent writer — any header fields (unknown tags included), any number of
                     credentials, name components, addresses, authorization-data entries, any key and
                     ticket lengths — back to exactly the written cache
    * `getEntry_first`, `getEntries_filters_conf`, `getEntries_keeps` : lookup and configuration filter
-/
import Krb.Model.CCache
namespace Krb.C15

open Krb Krb.CCache

/-! ## generic reader lemmas -/

theorem takeN_append (a r : Bytes) : takeN a.length (a ++ r) = some (a, r) := by
  simp [takeN]

theorem rdData_data (le : Bool) (d r : Bytes) (h : d.length < 2147483648) :
    rdData le (Spec.data le d ++ r) = some (d, r) := by
  unfold rdData Spec.data
  rw [List.append_assoc, dec32_enc32 le _ (by omega)]
  simp [h, takeN_append]

theorem rdList_map {α : Type} (item : Bytes → Option (α × Bytes)) (enc : α → Bytes) (xs : List α)
    (r : Bytes) (h : ∀ x ∈ xs, ∀ r', item (enc x ++ r') = some (x, r')) :
    rdList item xs.length ((xs.map enc).flatten ++ r) = some (xs, r) := by
  induction xs with
  | nil => simp [rdList]
  | cons x xs ih =>
    simp only [List.length_cons, List.map_cons, List.flatten_cons, List.append_assoc, rdList]
    rw [h x (by simp)]
    simp only
    rw [ih (fun y hy => h y (by simp [hy]))]

theorem flatten_length_ge {α : Type} (enc : α → Bytes) (xs : List α) (k : Nat)
    (h : ∀ x ∈ xs, k ≤ (enc x).length) : k * xs.length ≤ ((xs.map enc).flatten).length := by
  induction xs with
  | nil => simp
  | cons x xs ih =>
    simp only [List.length_cons, List.map_cons, List.flatten_cons, List.length_append]
    have := h x (by simp)
    have := ih (fun y hy => h y (by simp [hy]))
    rw [Nat.mul_add]; omega

/-! ## principals -/

def WFPrinc (p : Princ) : Prop :=
  p.nameType < 4294967296 ∧ p.realm.length < 2147483648 ∧ (∀ c ∈ p.comps, c.length < 2147483648) ∧
  p.comps.length + 1 < 2147483648

/-- what a reader reports: version 1 files carry no name type -/
def normPrinc (v : Nat) (p : Princ) : Princ := if v = 1 then { p with nameType := 0 } else p

theorem toSigned32_small (n : Nat) (h : n < 2147483648) : toSigned 32 n = (n : Int) := by
  simp [toSigned, h]

theorem rdPrinc_princ (le : Bool) (v : Nat) (p : Princ) (r : Bytes) (h : WFPrinc p) :
    Impl.rdPrinc le v (Spec.princ le v p ++ r) = some (normPrinc v p, r) := by
  obtain ⟨h1, h2, h3, h4⟩ := h
  unfold Impl.rdPrinc Spec.princ
  have hcomps := rdList_map (rdData le) (Spec.data le) p.comps r
    (fun c hc r' => rdData_data le c r' (h3 c hc))
  have hge : p.comps.length ≤ ((p.comps.map (Spec.data le)).flatten ++ r).length := by
    have := flatten_length_ge (Spec.data le) p.comps 1 (fun c _ => by simp [Spec.data]; omega)
    simp only [List.length_append]; omega
  by_cases hv : v = 1
  · subst hv
    simp only [ne_eq, not_true_eq_false, if_false, if_true, List.nil_append, List.append_assoc]
    rw [dec32_enc32 le _ (by omega)]
    simp only
    rw [rdData_data le _ _ h2]
    have hnc : (toSigned 32 (p.comps.length + 1) - 1 : Int) = (p.comps.length : Int) := by
      rw [toSigned32_small _ (by omega)]; omega
    simp only [hnc, Int.toNat_natCast]
    have hneg : ¬ ((p.comps.length : Int) < 0) := by omega
    have hgt : ¬ (p.comps.length > ((p.comps.map (Spec.data le)).flatten ++ r).length) := by omega
    simp only [hneg, hgt, if_false, hcomps, normPrinc, if_true]
  · simp only [ne_eq, hv, not_false_eq_true, if_true, if_false, List.append_assoc]
    rw [dec32_enc32 le _ h1]
    simp only
    rw [dec32_enc32 le _ (by omega)]
    simp only
    rw [rdData_data le _ _ h2]
    have hnc : (toSigned 32 p.comps.length - 0 : Int) = (p.comps.length : Int) := by
      rw [toSigned32_small _ (by omega)]; omega
    simp only [hnc, Int.toNat_natCast]
    have hneg : ¬ ((p.comps.length : Int) < 0) := by omega
    have hgt : ¬ (p.comps.length > ((p.comps.map (Spec.data le)).flatten ++ r).length) := by omega
    simp only [hneg, hgt, if_false, hcomps, normPrinc, hv]

/-! ## typed entries -/

def WFTyped (x : Nat × Bytes) : Prop := x.1 < 65536 ∧ x.2.length < 2147483648

theorem rdTyped_typed (le : Bool) (x : Nat × Bytes) (r : Bytes) (h : WFTyped x) :
    Impl.rdTyped le (Spec.typed le x ++ r) = some (x, r) := by
  unfold Impl.rdTyped Spec.typed
  rw [List.append_assoc, dec16_enc16 le _ h.1]
  simp only
  rw [rdData_data le _ _ h.2]

theorem rdTypedList_typedList (le : Bool) (l : List (Nat × Bytes)) (r : Bytes)
    (h : ∀ x ∈ l, WFTyped x) (hn : l.length < 2147483648) :
    Impl.rdTypedList le (Spec.typedList le l ++ r) = some (l, r) := by
  unfold Impl.rdTypedList Spec.typedList
  rw [List.append_assoc, dec32_enc32 le _ (by omega)]
  have hge : l.length ≤ ((l.map (Spec.typed le)).flatten ++ r).length := by
    have := flatten_length_ge (Spec.typed le) l 1 (fun x _ => by simp [Spec.typed, Spec.data]; omega)
    simp only [List.length_append]; omega
  have h1 : ¬ (l.length ≥ 2147483648) := by omega
  have h2 : ¬ (l.length > ((l.map (Spec.typed le)).flatten ++ r).length) := by omega
  simp only [h1, h2, if_false]
  exact rdList_map (Impl.rdTyped le) (Spec.typed le) l r (fun x hx r' => rdTyped_typed le x r' (h x hx))

/-! ## credentials -/

def WFCred (c : Cred) : Prop :=
  WFPrinc c.client ∧ WFPrinc c.server ∧ c.keyType < 65536 ∧ c.key.length < 2147483648 ∧
  c.authTime < 4294967296 ∧ c.startTime < 4294967296 ∧ c.endTime < 4294967296 ∧
  c.renewTill < 4294967296 ∧ c.isSKey < 256 ∧ c.flags < 4294967296 ∧
  (∀ x ∈ c.addrs, WFTyped x) ∧ c.addrs.length < 2147483648 ∧
  (∀ x ∈ c.authData, WFTyped x) ∧ c.authData.length < 2147483648 ∧
  c.ticket.length < 2147483648 ∧ c.second.length < 2147483648

def normCred (v : Nat) (c : Cred) : Cred :=
  { c with client := normPrinc v c.client, server := normPrinc v c.server }

theorem rdKeyType_keyType (le : Bool) (v kt : Nat) (r : Bytes) (h : kt < 65536) :
    Impl.rdKeyType le v (Spec.keyType le v kt ++ r) = some (kt, r) := by
  unfold Impl.rdKeyType Spec.keyType
  rw [List.append_assoc, dec16_enc16 le _ h]
  by_cases hv : v = 3
  · simp only [hv, if_true]; rw [dec16_enc16 le _ h]
  · simp only [hv, if_false, List.nil_append]

theorem rdCred_cred (le : Bool) (v : Nat) (c : Cred) (r : Bytes) (h : WFCred c) :
    Impl.rdCred le v (Spec.cred le v c ++ r) = some (normCred v c, r) := by
  obtain ⟨h1, h2, h3, h4, h5, h6, h7, h8, h9, h10, h11, h12, h13, h14, h15, h16⟩ := h
  unfold Impl.rdCred Spec.cred
  simp only [List.append_assoc, bind, Option.bind]
  rw [rdPrinc_princ le v c.client _ h1]
  simp only
  rw [rdPrinc_princ le v c.server _ h2]
  simp only
  rw [rdKeyType_keyType le v c.keyType _ h3]
  simp only
  rw [rdData_data le _ _ h4]
  simp only
  rw [dec32_enc32 le _ h5]
  simp only
  rw [dec32_enc32 le _ h6]
  simp only
  rw [dec32_enc32 le _ h7]
  simp only
  rw [dec32_enc32 le _ h8]
  simp only [List.cons_append, List.nil_append, rd8]
  rw [dec32_enc32 le _ h10]
  simp only
  rw [rdTypedList_typedList le _ _ h11 h12]
  simp only
  rw [rdTypedList_typedList le _ _ h13 h14]
  simp only
  rw [rdData_data le _ _ h15]
  simp only
  rw [rdData_data le _ _ h16]
  simp only [u8_ofNat_toNat_lt _ h9, pure, normCred]

theorem cred_length_pos (le : Bool) (v : Nat) (c : Cred) : 0 < (Spec.cred le v c).length := by
  simp [Spec.cred, Spec.princ, Spec.keyType]
  omega

theorem rdCreds_creds (le : Bool) (v : Nat) (cs : List Cred) (fuel : Nat) (hf : cs.length ≤ fuel)
    (h : ∀ c ∈ cs, WFCred c) :
    Impl.rdCreds le v fuel ((cs.map (Spec.cred le v)).flatten) = some (cs.map (normCred v)) := by
  induction cs generalizing fuel with
  | nil => cases fuel <;> simp [Impl.rdCreds]
  | cons c cs ih =>
    cases fuel with
    | zero => simp at hf
    | succ f =>
      simp only [List.map_cons, List.flatten_cons, Impl.rdCreds]
      have hne : (Spec.cred le v c ++ (cs.map (Spec.cred le v)).flatten).isEmpty = false := by
        have := cred_length_pos le v c
        cases hc : Spec.cred le v c with
        | nil => rw [hc] at this; simp at this
        | cons a as => simp
      simp only [hne, Bool.false_eq_true, if_false]
      rw [rdCred_cred le v c _ (h c (by simp))]
      simp only
      rw [ih f (by simp at hf; omega) (fun c' hc' => h c' (by simp [hc']))]
      simp

/-! ## the version 4 header -/

def WFField (f : Nat × Bytes) : Prop := f.1 < 65536 ∧ f.2.length < 65536 ∧ (f.1 = 1 → f.2.length = 8)

def fieldsLen (fs : List (Nat × Bytes)) : Nat := ((fs.map Spec.headerField).flatten).length

theorem headerField_length (f : Nat × Bytes) : (Spec.headerField f).length = 4 + f.2.length := by
  simp [Spec.headerField]; omega

theorem rdHeader_fields (hlen : Nat) (fs : List (Nat × Bytes)) (pos fuel : Nat) (r : Bytes)
    (hpos : pos + fieldsLen fs = hlen + 4) (hf : fs.length < fuel) (h : ∀ f ∈ fs, WFField f) :
    Impl.rdHeader hlen fuel pos ((fs.map Spec.headerField).flatten ++ r) = some (fs, r) := by
  induction fs generalizing pos fuel with
  | nil =>
    cases fuel with
    | zero => simp at hf
    | succ f =>
      simp only [fieldsLen, List.map_nil, List.flatten_nil, List.length_nil, Nat.add_zero] at hpos
      have : ¬ (pos ≤ hlen) := by omega
      simp [Impl.rdHeader, this]
  | cons f fs ih =>
    cases fuel with
    | zero => simp at hf
    | succ fu =>
      obtain ⟨w1, w2, w3⟩ := h f (by simp)
      have hfl : fieldsLen (f :: fs) = 4 + f.2.length + fieldsLen fs := by
        simp [fieldsLen, headerField_length]
      have hle : pos ≤ hlen := by omega
      simp only [List.map_cons, List.flatten_cons, List.append_assoc, Impl.rdHeader, hle, if_true,
        Spec.headerField]
      rw [dec16be_be16 _ w1]
      simp only
      rw [dec16be_be16 _ w2]
      simp only [takeN_append]
      have hv : ¬ (f.1 = 1 ∧ f.2.length ≠ 8) := by
        intro ⟨a, b⟩; exact b (w3 a)
      simp only [hv, if_false]
      rw [ih (pos + 4 + f.2.length) fu (by omega) (by simp at hf; omega)
        (fun g hg => h g (by simp [hg]))]
      simp

/-! ## the whole file -/

def WFCC (c : CC) : Prop :=
  (c.version = 1 ∨ c.version = 2 ∨ c.version = 3 ∨ c.version = 4) ∧
  (c.version ≠ 4 → c.header = []) ∧ (∀ f ∈ c.header, WFField f) ∧ fieldsLen c.header < 65536 ∧
  WFPrinc c.princ ∧ (∀ cr ∈ c.creds, WFCred cr)

def normCC (c : CC) : CC :=
  { c with princ := normPrinc c.version c.princ, creds := c.creds.map (normCred c.version) }

theorem creds_length_ge (le : Bool) (v : Nat) (cs : List Cred) :
    cs.length ≤ ((cs.map (Spec.cred le v)).flatten).length := by
  have := flatten_length_ge (Spec.cred le v) cs 1 (fun c _ => cred_length_pos le v c)
  omega

/-- **C15 reads_spec.** -/
theorem reads_spec (le : Bool) (c : CC) (h : WFCC c) :
    Impl.unmarshal le (Spec.render le c) = some (normCC c) := by
  obtain ⟨hv, hh0, hh1, hh2, hp, hc⟩ := h
  unfold Impl.unmarshal Spec.render
  have hvn : (UInt8.ofNat c.version).toNat = c.version := by
    rcases hv with e | e | e | e <;> rw [e] <;> rfl
  simp only [List.cons_append, List.nil_append, ne_eq, not_true_eq_false, if_false, hvn]
  have hrange : ¬ (c.version < 1 ∨ c.version > 4) := by omega
  simp only [hrange, if_false]
  by_cases h4 : c.version = 4
  · -- keep the version symbolic (so that nothing is evaluated); only the two conditionals are resolved
    have hle : ((decide (c.version = 1 ∨ c.version = 2)) && le) = false := by simp [h4]
    rw [if_pos h4, if_pos h4, hle]
    simp only [Spec.header, List.append_assoc]
    have hh2' : ((c.header.map Spec.headerField).flatten).length < 65536 := hh2
    rw [dec16be_be16 _ hh2']
    have hfuel : c.header.length < ((c.header.map Spec.headerField).flatten).length + 1 := by
      have := flatten_length_ge Spec.headerField c.header 1
        (fun f _ => by rw [headerField_length]; omega)
      omega
    have hrd := rdHeader_fields ((c.header.map Spec.headerField).flatten).length c.header 4
      (((c.header.map Spec.headerField).flatten).length + 1)
      (Spec.princ false c.version c.princ ++ (c.creds.map (Spec.cred false c.version)).flatten)
      (by unfold fieldsLen; omega) hfuel hh1
    simp only [hrd]
    rw [rdPrinc_princ false c.version c.princ _ hp]
    simp only
    rw [rdCreds_creds false c.version c.creds _ (creds_length_ge false c.version c.creds) hc]
    simp only [normCC]
  · simp only [h4, if_false, List.nil_append]
    rw [rdPrinc_princ _ c.version c.princ _ hp]
    simp only
    rw [rdCreds_creds _ c.version c.creds _ (creds_length_ge _ c.version c.creds) hc]
    simp only [normCC]
    have := hh0 h4
    cases c
    simp_all

/-! ## lookups -/

/-- **getEntry_first.** the credential returned is the first one whose server name equals the name
    asked for, and nothing is returned when there is none -/
theorem getEntry_first (c : CC) (name : List Bytes) (cr : Cred) (h : Impl.getEntry c name = some cr) :
    cr ∈ c.creds ∧ cr.server.comps = name := by
  unfold Impl.getEntry at h
  have h1 := List.mem_of_find?_eq_some h
  have h2 := List.find?_some h
  exact ⟨h1, by simpa using h2⟩

theorem getEntry_none (c : CC) (name : List Bytes) (h : Impl.getEntry c name = none) :
    ∀ cr ∈ c.creds, cr.server.comps ≠ name := by
  unfold Impl.getEntry at h
  rw [List.find?_eq_none] at h
  intro cr hcr e
  have := h cr hcr
  simp [e] at this

/-- **getEntries_filters_conf.** exactly the entries whose server realm starts with X-CACHECONF are
    removed, order kept -/
theorem getEntries_filters_conf (c : CC) (cr : Cred) :
    cr ∈ Impl.getEntries c ↔ cr ∈ c.creds ∧ Impl.isConf cr = false := by
  simp [Impl.getEntries, List.mem_filter]

/-! ## the client built from a cache -/

section Client
open Krb.CCache.Impl

theorem cacheLookup_put (m : List (Bytes × Cred)) (cr : Cred) (k : Bytes) :
    cacheLookup (cachePut m cr) k = if spnOf cr = k then some cr else cacheLookup m k := by
  unfold cacheLookup cachePut
  by_cases h : spnOf cr = k
  · simp [h]
  · have hb : (spnOf cr == k) = false := by simp [h]
    simp only [List.find?_cons, hb, h, if_false, List.find?_filter]
    congr 2
    funext e
    by_cases he : e.1 = k
    · have : (e.1 == spnOf cr) = false := by
        simp only [beq_eq_false_iff_ne, ne_eq]; intro hh; exact h (hh ▸ he)
      simp [he]
      exact fun hh => h hh.symm
    · simp [he]


/-- what the client holds for an SPN after the credentials `l` have been added to the cache `m`: the last
    credential of `l` for that SPN, else what `m` held -/
theorem foldl_put_lookup (l : List Cred) (m : List (Bytes × Cred)) (k : Bytes) :
    cacheLookup (l.foldl cachePut m) k =
      match l.reverse.find? (fun cr => spnOf cr == k) with
      | some cr => some cr
      | none => cacheLookup m k := by
  induction l generalizing m with
  | nil => simp
  | cons cr l ih =>
    simp only [List.foldl_cons, List.reverse_cons, List.find?_append]
    rw [ih]
    cases hl : l.reverse.find? (fun cr => spnOf cr == k) with
    | some x => simp
    | none =>
      simp only [Option.none_or, List.find?_cons, List.find?_nil]
      rw [cacheLookup_put]
      by_cases h : spnOf cr = k
      · simp [h]
      · have hb : (spnOf cr == k) = false := by simp [h]
        simp [h, hb]

/-- **C15 client.** A client built from a cache holds, for every service name, the last credential of the
    file for that name that is not a configuration entry — that credential itself: its key, its times (auth,
    start, end, renew-till), its flags and its ticket octets — and nothing for a name the file has no such
    credential for. -/
theorem client_holds_last (c : CC) (k : Bytes) :
    cacheLookup (clientCache c) k = (getEntries c).reverse.find? (fun cr => spnOf cr == k) := by
  unfold clientCache
  rw [foldl_put_lookup]
  cases (getEntries c).reverse.find? (fun cr => spnOf cr == k) <;> simp [cacheLookup]

theorem client_holds_only_file_credentials (c : CC) (k : Bytes) (cr : Cred)
    (h : cacheLookup (clientCache c) k = some cr) : cr ∈ c.creds ∧ isConf cr = false ∧ spnOf cr = k := by
  rw [client_holds_last] at h
  have hm := List.mem_of_find?_eq_some h
  have hp := List.find?_some h
  simp only [List.mem_reverse, getEntries, List.mem_filter, Bool.not_eq_true'] at hm
  exact ⟨hm.1, hm.2, by simpa using hp⟩

end Client

/-! non-vacuity -/
def exPrinc : Princ := { nameType := 1, realm := [84], comps := [[97], [98, 99]] }
def exCred : Cred :=
  { client := exPrinc, server := { exPrinc with comps := [[107]] }, keyType := 18, key := [1, 2, 3],
    authTime := 10, startTime := 11, endTime := 12, renewTill := 13, isSKey := 0, flags := 1088487424,
    addrs := [(2, [127, 0, 0, 1])], authData := [], ticket := [9, 9], second := [] }

example : Impl.unmarshal true (Spec.render true { version := 1, princ := exPrinc, creds := [exCred, exCred] })
    = some (normCC { version := 1, princ := exPrinc, creds := [exCred, exCred] }) := by decide +kernel

example : Impl.unmarshal true (Spec.render true
      { version := 4, header := [(7, [1, 2, 3]), (1, [0, 0, 0, 0, 0, 0, 0, 0])], princ := exPrinc, creds := [exCred] })
    = some { version := 4, header := [(7, [1, 2, 3]), (1, [0, 0, 0, 0, 0, 0, 0, 0])], princ := exPrinc, creds := [exCred] } := by
  decide +kernel

end Krb.C15
