/-
  C14 — Keytab files round-trip and key lookup returns only a matching key.

  Property theorems (namespace `Krb.C14`):
    * `reads_spec`       : the model of `Keytab.Unmarshal` reads every file the independent writer
                           renders (holes anywhere, with/without 32-bit kvno, both versions, both byte
                           orders for v1) to exactly the entries the format document prescribes.
    * `marshal_is_render`: the model of `Keytab.Marshal` *is* the independent writer (all kvno32
                           present, no holes).
    * `roundtrip`        : hence unmarshal ∘ marshal = id on well-formed keytabs, versions 1 and 2.
    * `lookup_sound`, `lookup_complete`, `lookup_newest`: `GetEncryptionKey`.
-/
import Krb.Model.Keytab
namespace Krb.C14

open Krb Krb.Keytab

/-! ## well-formedness (exactly what the file format can carry) -/

def WFEntry (v : Nat) (e : Entry) (k : Option Nat) : Prop :=
  e.realm.length < 32768 ∧ (∀ c ∈ e.comps, c.length < 32768) ∧ e.comps.length < 32767 ∧
  e.nameType < 4294967296 ∧ e.ts < 4294967296 ∧ e.kvno8 < 256 ∧ e.etype < 65536 ∧
  e.key.length < 32768 ∧ (∀ x, k = some x → x < 4294967296) ∧
  (Spec.renderEntryBody (v = 1 && true) v e k).length < 2147483648 ∧
  (Spec.renderEntryBody false v e k).length < 2147483648

def WFItem (v : Nat) : Spec.Item → Prop
  | .hole n => 1 ≤ n ∧ n < 2147483648
  | .entry e k => WFEntry v e k

/-! ## helper lemmas -/

theorem takeN_append (a r : Bytes) : takeN a.length (a ++ r) = some (a, r) := by
  simp [takeN]

theorem counted_render (le : Bool) (s r : Bytes) (h : s.length < 32768) :
    counted le (Spec.counted le s ++ r) = some (s, r) := by
  unfold counted Spec.counted
  rw [List.append_assoc, dec16_enc16 le _ (by omega)]
  simp [h, takeN_append]

theorem parseComps_render (le : Bool) (cs : List Bytes) (r : Bytes) (acc : List Bytes)
    (h : ∀ c ∈ cs, c.length < 32768) :
    Impl.parseComps le cs.length ((cs.map (Spec.counted le)).flatten ++ r) acc
      = (acc ++ cs, r, true) := by
  induction cs generalizing acc with
  | nil => simp [Impl.parseComps]
  | cons c cs ih =>
    have hc : c.length < 32768 := h c (by simp)
    have hcs : ∀ c' ∈ cs, c'.length < 32768 := fun c' hc' => h c' (by simp [hc'])
    simp only [List.length_cons, List.map_cons, List.flatten_cons, Impl.parseComps,
      Spec.counted, List.append_assoc]
    rw [dec16_enc16 le _ (by omega)]
    simp only [hc, if_true, takeN_append]
    have := ih (acc ++ [c]) hcs
    simp only [Spec.counted, List.append_assoc] at this
    rw [this]
    simp

theorem toSigned16_small (n : Nat) (h : n < 32768) : toSigned 16 n = (n : Int) := by
  simp [toSigned, h]

theorem parsePrincipal_render (le : Bool) (v : Nat) (e : Entry) (r : Bytes)
    (h1 : e.realm.length < 32768) (h2 : ∀ c ∈ e.comps, c.length < 32768)
    (h3 : e.comps.length < 32767) (h4 : e.nameType < 4294967296) :
    Impl.parsePrincipal le v
      (enc16 le (if v = 1 then e.comps.length + 1 else e.comps.length) ++
       Spec.counted le e.realm ++ (e.comps.map (Spec.counted le)).flatten ++
       (if v = 1 then [] else enc32 le e.nameType) ++ r)
    = ({ realm := e.realm, comps := e.comps, nameType := if v = 1 then 0 else e.nameType }, r) := by
  unfold Impl.parsePrincipal
  simp only [List.append_assoc]
  rw [dec16_enc16 le _ (by split <;> omega)]
  simp only [Spec.counted, List.append_assoc]
  rw [dec16_enc16 le _ (by omega)]
  simp only [h1, if_true, takeN_append]
  have hnc : (toSigned 16 (if v = 1 then e.comps.length + 1 else e.comps.length)
      - (if v = 1 then 1 else 0) : Int).toNat = e.comps.length := by
    by_cases hv : v = 1
    · simp only [hv, if_true]; rw [toSigned16_small _ (by omega)]; omega
    · simp only [hv, if_false]; rw [toSigned16_small _ (by omega)]; omega
  rw [hnc]
  have hp := parseComps_render le e.comps
    ((if v = 1 then [] else enc32 le e.nameType) ++ r) [] h2
  simp only [Spec.counted, List.nil_append] at hp
  rw [hp]
  by_cases hv : v = 1
  · simp [hv]
  · simp only [hv, if_false, if_true, ne_eq, not_false_eq_true, List.append_assoc]
    rw [dec32_enc32 le _ h4]

theorem parseEntry_render (le : Bool) (v : Nat) (e : Entry) (k : Option Nat)
    (h : WFEntry v e k) :
    Impl.parseEntry le v (Spec.renderEntryBody le v e k)
      = .ok { e with kvno := Spec.effKvno e k, nameType := if v = 1 then 0 else e.nameType } := by
  obtain ⟨h1, h2, h3, h4, h5, h6, h7, h8, h9, _, _⟩ := h
  unfold Impl.parseEntry Spec.renderEntryBody
  simp only [List.append_assoc]
  have hp := parsePrincipal_render le v e
    (enc32 le e.ts ++ ([UInt8.ofNat e.kvno8] ++ (enc16 le e.etype ++ (Spec.counted le e.key ++
      Spec.kvnoTail le k)))) h1 h2 h3 h4
  simp only [List.append_assoc] at hp
  rw [hp]
  simp only
  rw [dec32_enc32 le _ h5]
  simp only [List.cons_append, List.nil_append, dec8]
  rw [dec16_enc16 le _ h7]
  simp only
  rw [counted_render le _ _ h8]
  simp only [u8_ofNat_toNat_lt _ h6]
  cases k with
  | none => simp [Spec.effKvno, Spec.kvnoTail]
  | some x =>
    have hx := h9 x rfl
    have := dec32_enc32 le x hx []
    simp only [List.append_nil] at this
    simp [this, Spec.effKvno, Spec.kvnoTail]

/-- Fields after the 32-bit key version of a record (the record's length delimits it; Heimdal writes a
    32-bit flags word there, MIT's reader skips whatever follows) do not change the entry that is read:
    the key version stays the 32-bit one, not the 8-bit field. -/
theorem parseEntry_tail (le : Bool) (v : Nat) (e : Entry) (x : Nat) (t : Bytes)
    (h : WFEntry v e (some x)) :
    Impl.parseEntry le v (Spec.renderEntryBody le v e (some x) ++ t)
      = .ok { e with kvno := Spec.effKvno e (some x), nameType := if v = 1 then 0 else e.nameType } := by
  obtain ⟨h1, h2, h3, h4, h5, h6, h7, h8, h9, _, _⟩ := h
  unfold Impl.parseEntry Spec.renderEntryBody
  simp only [List.append_assoc]
  have hp := parsePrincipal_render le v e
    (enc32 le e.ts ++ ([UInt8.ofNat e.kvno8] ++ (enc16 le e.etype ++ (Spec.counted le e.key ++
      (Spec.kvnoTail le (some x) ++ t))))) h1 h2 h3 h4
  simp only [List.append_assoc] at hp
  rw [hp]
  simp only
  rw [dec32_enc32 le _ h5]
  simp only [List.cons_append, List.nil_append, dec8]
  rw [dec16_enc16 le _ h7]
  simp only
  rw [counted_render le _ _ h8]
  simp only [u8_ofNat_toNat_lt _ h6]
  have hx := h9 x rfl
  have := dec32_enc32 le x hx t
  simp [this, Spec.effKvno, Spec.kvnoTail, enc32_length]

/-- … and so the tail is invisible: with or without it the same entry is read. -/
theorem parseEntry_tail_irrelevant (le : Bool) (v : Nat) (e : Entry) (x : Nat) (t : Bytes)
    (h : WFEntry v e (some x)) :
    Impl.parseEntry le v (Spec.renderEntryBody le v e (some x) ++ t)
      = Impl.parseEntry le v (Spec.renderEntryBody le v e (some x)) := by
  rw [parseEntry_tail le v e x t h, parseEntry_render le v e (some x) h]

/-! ## the record loop -/

theorem loop_render (le : Bool) (v : Nat) (items : List Spec.Item) (acc : List Entry) (fuel : Nat)
    (hf : items.length < fuel)
    (hwf : ∀ it ∈ items, WFItem v it)
    (hle : le = (v = 1 && true) ∨ le = false) :
    Impl.loop le v fuel ((items.map (Spec.renderItem le v)).flatten) acc
      = .ok (acc ++ Spec.entriesOf v items) := by
  induction items generalizing acc fuel with
  | nil =>
    cases fuel with
    | zero => simp at hf
    | succ f => simp [Impl.loop, dec32, dec32le, dec32be, Spec.entriesOf]
  | cons it items ih =>
    cases fuel with
    | zero => simp at hf
    | succ f =>
      have hit : WFItem v it := hwf it (by simp)
      have hrest : ∀ it' ∈ items, WFItem v it' := fun it' h' => hwf it' (by simp [h'])
      have hf' : items.length < f := by simp at hf; omega
      cases it with
      | hole n =>
        obtain ⟨hn1, hn2⟩ := hit
        simp only [List.map_cons, List.flatten_cons, Spec.renderItem, List.append_assoc, Impl.loop]
        rw [dec32_enc32 le _ (by omega)]
        have e1 : ¬ (4294967296 - n = 0) := by omega
        have e2 : 4294967296 - n ≥ 2147483648 := by omega
        have e3 : 4294967296 - (4294967296 - n) = n := by omega
        simp only [e1, e2, e3, if_false, if_true]
        have e4 : n ≤ (zeros n ++ (items.map (Spec.renderItem le v)).flatten).length := by simp
        simp only [e4, if_true]
        have e5 : (zeros n ++ (items.map (Spec.renderItem le v)).flatten).drop n
            = (items.map (Spec.renderItem le v)).flatten := by
          have : (zeros n).length = n := zeros_length n
          rw [List.drop_append_of_le_length (by omega)]
          simp [List.drop_of_length_le, this]
        rw [e5, ih acc f hf' hrest]
        simp [Spec.entriesOf]
      | entry e k =>
        have hwfe : WFEntry v e k := hit
        have hlen : (Spec.renderEntryBody le v e k).length < 2147483648 := by
          obtain ⟨_, _, _, _, _, _, _, _, _, ha, hb⟩ := hwfe
          cases hle with
          | inl h => rw [h]; exact ha
          | inr h => rw [h]; exact hb
        have hpos : (Spec.renderEntryBody le v e k).length ≠ 0 := by
          unfold Spec.renderEntryBody; simp
        simp only [List.map_cons, List.flatten_cons, Spec.renderItem, List.append_assoc, Impl.loop]
        rw [dec32_enc32 le _ (by omega)]
        have e2 : ¬ ((Spec.renderEntryBody le v e k).length ≥ 2147483648) := by omega
        have e3 : ¬ ((Spec.renderEntryBody le v e k).length >
            (Spec.renderEntryBody le v e k ++ (items.map (Spec.renderItem le v)).flatten).length) := by
          simp
        simp only [hpos, e2, e3, if_false]
        rw [List.take_left', List.drop_left']
        · rw [parseEntry_render le v e k hwfe]
          simp only
          rw [ih _ f hf' hrest]
          simp [Spec.entriesOf]
        · rfl
        · rfl

/-- A record length of zero is the end of the keytab: whatever follows it (old contents of a file that was
    shortened in place) is not read. -/
theorem loop_end_marker (le : Bool) (v fuel : Nat) (stale : Bytes) (acc : List Entry) :
    Impl.loop le v (fuel + 1) (enc32 le 0 ++ stale) acc = .ok acc := by
  unfold Impl.loop
  rw [dec32_enc32 le 0 (by omega) stale]
  simp

/-! ## property theorems -/

/-- every item is at least 4 bytes long, so the input length bounds the number of items -/
theorem render_length_ge (le : Bool) (v : Nat) (items : List Spec.Item) :
    items.length ≤ ((items.map (Spec.renderItem le v)).flatten).length := by
  induction items with
  | nil => simp
  | cons it items ih =>
    simp only [List.map_cons, List.flatten_cons, List.length_append, List.length_cons]
    have : 1 ≤ (Spec.renderItem le v it).length := by
      cases it <;> simp [Spec.renderItem] <;> omega
    omega

/-- **C14 reads_spec.** `Unmarshal` reads every well-formed rendered file, for both versions and (v1)
    both byte orders, to exactly the entries the format prescribes. -/
theorem reads_spec (le : Bool) (v : Nat) (hv : v = 1 ∨ v = 2) (items : List Spec.Item)
    (hwf : ∀ it ∈ items, WFItem v it) :
    Impl.unmarshal le (Spec.render le v items) = .ok (v, Spec.entriesOf v items) := by
  unfold Impl.unmarshal Spec.render
  have hv8 : (UInt8.ofNat v) = 1 ∨ (UInt8.ofNat v) = 2 := by
    cases hv with
    | inl h => left; rw [h]; rfl
    | inr h => right; rw [h]; rfl
  have hvn : (UInt8.ofNat v).toNat = v := by
    cases hv with
    | inl h => rw [h]; rfl
    | inr h => rw [h]; rfl
  have hv1 : (UInt8.ofNat v = 1) = (v = 1) := by
    cases hv with
    | inl h => rw [h]; simp
    | inr h => rw [h]; simp
  simp only [List.cons_append, List.nil_append]
  have hne : ¬ ((UInt8.ofNat v) ≠ 1 ∧ (UInt8.ofNat v) ≠ 2) := by
    cases hv8 with
    | inl h => simp [h]
    | inr h => simp [h]
  simp only [ne_eq, not_true_eq_false, if_false, hne, hvn]
  cases items with
  | nil => simp [Spec.entriesOf]
  | cons it items =>
    have hlen4 : 4 ≤ (((it :: items).map
        (Spec.renderItem (decide (v = 1) && le) v)).flatten).length := by
      simp only [List.map_cons, List.flatten_cons, List.length_append]
      have : 4 ≤ (Spec.renderItem (decide (v = 1) && le) v it).length := by
        cases it <;> simp [Spec.renderItem] <;> omega
      omega
    have h0 : ¬ ((((it :: items).map
        (Spec.renderItem (decide (v = 1) && le) v)).flatten).length = 0) := by omega
    have h4 : ¬ ((((it :: items).map
        (Spec.renderItem (decide (v = 1) && le) v)).flatten).length < 4) := by omega
    simp only [hv1] at *
    simp only [h0, h4, if_false]
    have hle : (decide (v = 1) && le) = (decide (v = 1) && true) ∨ (decide (v = 1) && le) = false := by
      cases le <;> simp
    have hfuel : (it :: items).length <
        (((it :: items).map (Spec.renderItem (decide (v = 1) && le) v)).flatten).length := by
      have := render_length_ge (decide (v = 1) && le) v items
      simp only [List.map_cons, List.flatten_cons, List.length_append, List.length_cons]
      have : 4 ≤ (Spec.renderItem (decide (v = 1) && le) v it).length := by
        cases it <;> simp [Spec.renderItem] <;> omega
      omega
    rw [loop_render (decide (v = 1) && le) v (it :: items) [] _ hfuel hwf hle]
    simp

/-- **C14 marshal_is_render.** The model of `Keytab.Marshal` is the independent writer with every
    32-bit kvno present and no holes. -/
theorem marshal_is_render (le : Bool) (v : Nat) (es : List Entry) :
    Impl.marshal le v es = Spec.render le v (es.map (fun e => Spec.Item.entry e (some e.kvno))) := by
  have hentry : ∀ (le : Bool) (e : Entry),
      Impl.marshalEntry le v e = Spec.renderItem le v (.entry e (some e.kvno)) := by
    intro le e
    unfold Impl.marshalEntry Spec.renderItem Spec.renderEntryBody Impl.marshalString Spec.counted
    by_cases hv : v = 1 <;> simp [hv, Function.comp_def, Spec.kvnoTail]
  unfold Impl.marshal Spec.render
  have hf : Impl.marshalEntry (decide (v = 1) && le) v
      = fun e => Spec.renderItem (decide (v = 1) && le) v (.entry e (some e.kvno)) :=
    funext (hentry _)
  simp only [List.map_map, Function.comp_def, hf]

/-- an entry that survives the trip unchanged: name type absent in v1, and the 8-bit kvno is what the
    reader falls back to when the 32-bit one is zero -/
def Stable (v : Nat) (e : Entry) : Prop :=
  (v = 1 → e.nameType = 0) ∧ (e.kvno = 0 → e.kvno8 = 0)

/-- **C14 roundtrip.** Parsing what `Marshal` wrote returns the same entries, versions 1 and 2. -/
theorem roundtrip (le : Bool) (v : Nat) (hv : v = 1 ∨ v = 2) (es : List Entry)
    (hwf : ∀ e ∈ es, WFEntry v e (some e.kvno)) (hst : ∀ e ∈ es, Stable v e) :
    Impl.unmarshal le (Impl.marshal le v es) = .ok (v, es) := by
  rw [marshal_is_render, reads_spec le v hv]
  · congr 2
    induction es with
    | nil => rfl
    | cons e es ih =>
      simp only [List.map_cons, Spec.entriesOf]
      rw [ih (fun e' h' => hwf e' (by simp [h'])) (fun e' h' => hst e' (by simp [h']))]
      congr 1
      obtain ⟨s1, s2⟩ := hst e (by simp)
      cases e with
      | mk realm comps nameType ts kvno8 etype key kvno =>
        simp only [Spec.effKvno] at *
        by_cases hk : kvno = 0
        · simp [hk, s2 hk]
          by_cases h1 : v = 1
          · simp [h1, s1 h1]
          · simp [h1]
        · simp [hk]
          by_cases h1 : v = 1
          · simp [h1, s1 h1]
          · simp [h1]
  · intro it hit
    simp only [List.mem_map] at hit
    obtain ⟨e, he, rfl⟩ := hit
    exact hwf e he

/-! ## lookup -/

theorem scan_some_of_some (realm : Bytes) (name : List Bytes) (kvno etype : Nat)
    (es : List Entry) (b : Entry) :
    ∃ e, Impl.scan realm name kvno etype es (some b) = some e := by
  induction es generalizing b with
  | nil => exact ⟨b, rfl⟩
  | cons x xs ih =>
    simp only [Impl.scan]
    split
    · split
      · exact ih x
      · exact ih b
    · exact ih b

/-- what `scan` returns is the seed or a matching element of the list -/
theorem scan_mem (realm : Bytes) (name : List Bytes) (kvno etype : Nat)
    (es : List Entry) (best : Option Entry) (e : Entry)
    (h : Impl.scan realm name kvno etype es best = some e) :
    best = some e ∨ (e ∈ es ∧ Impl.isMatch e realm name kvno etype = true) := by
  induction es generalizing best with
  | nil => left; simpa [Impl.scan] using h
  | cons x xs ih =>
    simp only [Impl.scan] at h
    by_cases hm : Impl.isMatch x realm name kvno etype = true
    · simp only [hm, if_true] at h
      cases best with
      | none =>
        cases ih _ h with
        | inl h' => right; simp at h'; subst h'; exact ⟨by simp, hm⟩
        | inr h' => right; exact ⟨by simp [h'.1], h'.2⟩
      | some b =>
        simp only at h
        by_cases hgt : toSigned 32 x.ts > toSigned 32 b.ts
        · simp only [hgt, if_true] at h
          cases ih _ h with
          | inl h' => right; simp at h'; subst h'; exact ⟨by simp, hm⟩
          | inr h' => right; exact ⟨by simp [h'.1], h'.2⟩
        · simp only [hgt, if_false] at h
          cases ih _ h with
          | inl h' => left; exact h'
          | inr h' => right; exact ⟨by simp [h'.1], h'.2⟩
    · simp only [hm] at h
      cases ih _ h with
      | inl h' => left; exact h'
      | inr h' => right; exact ⟨by simp [h'.1], h'.2⟩

/-- **C14 lookup_sound.** A key is returned only from an entry of the keytab whose realm, name
    components and key type equal the requested ones and whose key version equals the requested
    version (any version when 0 is requested). -/
theorem lookup_sound (es : List Entry) (realm : Bytes) (name : List Bytes) (kvno etype : Nat)
    (hk : kvno < 4294967296) (key : Bytes) (kv : Nat)
    (h : Impl.getKey es realm name kvno etype = some (key, kv)) :
    ∃ e ∈ es, e.realm = realm ∧ e.comps = name ∧ e.etype = etype ∧ (kvno = 0 ∨ e.kvno = kvno) ∧
      key = e.key ∧ kv = e.kvno ∧ key ≠ [] := by
  unfold Impl.getKey at h
  split at h
  · simp at h
  · rename_i e he
    split at h
    · simp at h
    · rename_i hlen
      simp only [Option.some.injEq, Prod.mk.injEq] at h
      cases scan_mem realm name kvno etype es none e he with
      | inl h' => simp at h'
      | inr h' =>
        obtain ⟨hmem, hm⟩ := h'
        refine ⟨e, hmem, ?_⟩
        simp only [Impl.isMatch, Bool.and_eq_true, beq_iff_eq, Bool.or_eq_true] at hm
        obtain ⟨⟨⟨r1, r2⟩, r3⟩, r4⟩ := hm
        refine ⟨r1, r2, r3, ?_, h.1.symm, h.2.symm, ?_⟩
        · cases r4 with
          | inl h4 => right; rw [h4]; exact Nat.mod_eq_of_lt hk
          | inr h4 => left; exact h4
        · intro hnil
          rw [← h.1, ] at hnil
          simp [hnil] at hlen

/-- `scan` never loses a seed and always finds a match when one exists -/
theorem scan_complete (realm : Bytes) (name : List Bytes) (kvno etype : Nat)
    (es : List Entry) (best : Option Entry)
    (h : ∃ e ∈ es, Impl.isMatch e realm name kvno etype = true) :
    ∃ e, Impl.scan realm name kvno etype es best = some e := by
  induction es generalizing best with
  | nil => obtain ⟨e, he, _⟩ := h; simp at he
  | cons x xs ih =>
    simp only [Impl.scan]
    by_cases hm : Impl.isMatch x realm name kvno etype = true
    · simp only [hm, if_true]
      cases best with
      | none => exact scan_some_of_some realm name kvno etype xs x
      | some b =>
        simp only
        split
        · exact scan_some_of_some realm name kvno etype xs x
        · exact scan_some_of_some realm name kvno etype xs b
    · simp only [hm]
      obtain ⟨e, he, hme⟩ := h
      simp only [List.mem_cons] at he
      cases he with
      | inl h' => subst h'; exact absurd hme hm
      | inr h' => exact ih best ⟨e, h', hme⟩

/-- **C14 lookup_fails_without_match.** No matching entry ⇒ the lookup fails. -/
theorem lookup_none (es : List Entry) (realm : Bytes) (name : List Bytes) (kvno etype : Nat)
    (h : ∀ e ∈ es, Impl.isMatch e realm name kvno etype = false) :
    Impl.getKey es realm name kvno etype = none := by
  unfold Impl.getKey
  split
  · rfl
  · rename_i e he
    cases scan_mem realm name kvno etype es none e he with
    | inl h' => simp at h'
    | inr h' => rw [h e h'.1] at h'; simp at h'

/-- the timestamp of the running best never decreases, and the final answer is at least as new as
    every match -/
theorem scan_newest (realm : Bytes) (name : List Bytes) (kvno etype : Nat)
    (es : List Entry) (best : Option Entry) (r : Entry)
    (h : Impl.scan realm name kvno etype es best = some r) :
    (∀ b, best = some b → toSigned 32 b.ts ≤ toSigned 32 r.ts) ∧
    (∀ e ∈ es, Impl.isMatch e realm name kvno etype = true → toSigned 32 e.ts ≤ toSigned 32 r.ts) := by
  induction es generalizing best with
  | nil =>
    simp only [Impl.scan] at h
    subst h
    constructor
    · intro b hb; simp at hb; subst hb; exact Int.le_refl _
    · intro e he; simp at he
  | cons x xs ih =>
    simp only [Impl.scan] at h
    by_cases hm : Impl.isMatch x realm name kvno etype = true
    · simp only [hm, if_true] at h
      cases best with
      | none =>
        obtain ⟨i1, i2⟩ := ih _ h
        constructor
        · intro b hb; simp at hb
        · intro e he hme
          simp only [List.mem_cons] at he
          cases he with
          | inl h' => subst h'; exact i1 e rfl
          | inr h' => exact i2 e h' hme
      | some b =>
        simp only at h
        by_cases hgt : toSigned 32 x.ts > toSigned 32 b.ts
        · simp only [hgt, if_true] at h
          obtain ⟨i1, i2⟩ := ih _ h
          have hx := i1 x rfl
          constructor
          · intro b' hb'; simp at hb'; subst hb'; omega
          · intro e he hme
            simp only [List.mem_cons] at he
            cases he with
            | inl h' => subst h'; exact hx
            | inr h' => exact i2 e h' hme
        · simp only [hgt, if_false] at h
          obtain ⟨i1, i2⟩ := ih _ h
          have hb := i1 b rfl
          constructor
          · intro b' hb'; simp at hb'; subst hb'; exact hb
          · intro e he hme
            simp only [List.mem_cons] at he
            cases he with
            | inl h' => subst h'; omega
            | inr h' => exact i2 e h' hme
    · simp only [hm] at h
      obtain ⟨i1, i2⟩ := ih _ h
      constructor
      · exact i1
      · intro e he hme
        simp only [List.mem_cons] at he
        cases he with
        | inl h' => subst h'; exact absurd hme hm
        | inr h' => exact i2 e h' hme

/-- **C14 lookup_complete / newest.** If some entry matches, the lookup selects a matching entry that
    is at least as new as every other match; it succeeds iff that entry's key is non-empty. -/
theorem lookup_complete (es : List Entry) (realm : Bytes) (name : List Bytes) (kvno etype : Nat)
    (h : ∃ e ∈ es, Impl.isMatch e realm name kvno etype = true) :
    ∃ r ∈ es, Impl.isMatch r realm name kvno etype = true ∧
      (∀ e ∈ es, Impl.isMatch e realm name kvno etype = true → toSigned 32 e.ts ≤ toSigned 32 r.ts) ∧
      Impl.getKey es realm name kvno etype = (if r.key.length < 1 then none else some (r.key, r.kvno)) := by
  obtain ⟨r, hr⟩ := scan_complete realm name kvno etype es none h
  cases scan_mem realm name kvno etype es none r hr with
  | inl h' => simp at h'
  | inr h' =>
    refine ⟨r, h'.1, h'.2, (scan_newest realm name kvno etype es none r hr).2, ?_⟩
    unfold Impl.getKey
    rw [hr]

/-! ## non-vacuity: concrete witnesses -/

def exEntry : Entry :=
  { realm := [84, 69, 83, 84], comps := [[72, 84, 84, 80], [104]], nameType := 1, ts := 100,
    kvno8 := 3, etype := 17, key := [1, 2, 3, 4], kvno := 3 }

example : WFItem 2 (.entry exEntry (some 3)) := by
  simp [WFItem, WFEntry, exEntry, Spec.renderEntryBody, Spec.counted]
  decide

example : WFItem 1 (.hole 7) := by simp [WFItem]

/-- a file with a hole between two entries, one without the 32-bit kvno, is read correctly -/
example :
    (Impl.unmarshal true (Spec.render true 2
      [.entry exEntry (some 3), .hole 5, .entry { exEntry with kvno8 := 9 } none])).toOption
      = some (2, [exEntry, { exEntry with kvno8 := 9, kvno := 9 }]) := by decide +kernel

/-- near misses are not returned: other realm, prefix of the components, other etype, other kvno -/
example : Impl.getKey [exEntry] [84, 69, 83, 83] [[72, 84, 84, 80], [104]] 3 17 = none := by decide
example : Impl.getKey [exEntry] [84, 69, 83, 84] [[72, 84, 84, 80]] 3 17 = none := by decide
example : Impl.getKey [exEntry] [84, 69, 83, 84] [[72, 84, 84, 80], [104]] 3 18 = none := by decide
example : Impl.getKey [exEntry] [84, 69, 83, 84] [[72, 84, 84, 80], [104]] 4 17 = none := by decide
example : Impl.getKey [exEntry] [84, 69, 83, 84] [[72, 84, 84, 80], [104]] 0 17
    = some ([1, 2, 3, 4], 3) := by decide

end Krb.C14
