/-
  C17 — GSS-API MIC and Wrap tokens follow RFC 4121 and bind header and payload.

    * `wrap_layout`, `mic_layout`     : what Marshal writes is the RFC 4121 §4.2.6 layout
    * `wrap_roundtrip`, `mic_roundtrip`: Unmarshal ∘ Marshal returns the same fields
    * `wrap_decode_strict`, `mic_decode_strict` : for ALL byte strings, a successful decode implies the
          token identifier, the filler and the sender-direction flag are the expected ones
    * `wrap_verify_iff`, `mic_verify_iff` : verification ⇔ checksum = RFC checksum over
          payload ‖ header(flags, seq, EC = RRC = 0)
    * `wrap_input_injective`, `mic_input_injective` : the checksummed string determines payload, flags and
          sequence number, hence
    * `wrap_binds` : accepting a checksum after payload, flags or sequence number changed exhibits a
          collision of the keyed checksum on two different strings
-/
import Krb.Model.Gss
import Krb.Props.C05
namespace Krb.C17

open Krb Krb.Crypto Krb.Gss

/-! ## layout -/

/-- **C17 wrap_layout.** when EC is the checksum length (as every constructor sets it) -/
theorem wrap_layout (t : Wrap) (h : t.ec = t.cksum.length) : Impl.marshalWrap t = Spec.wrapToken t := by
  unfold Impl.marshalWrap Spec.wrapToken
  rw [h]; simp [zeros]

/-- **C17 mic_layout.** -/
theorem mic_layout (t : Mic) : Impl.marshalMic t = Spec.micToken t := rfl

theorem be64val_be64 (n : Nat) (h : n < 18446744073709551616) :
    ∃ s0 s1 s2 s3 s4 s5 s6 s7, be64 n = [s0, s1, s2, s3, s4, s5, s6, s7] ∧
      Impl.be64val s0 s1 s2 s3 s4 s5 s6 s7 = n := by
  refine ⟨_, _, _, _, _, _, _, _, rfl, ?_⟩
  simp only [Impl.be64val, UInt8.toNat_ofNat']
  omega

theorem be16val (n : Nat) (h : n < 65536) :
    (UInt8.ofNat (n / 256)).toNat * 256 + (UInt8.ofNat n).toNat = n := by
  simp only [UInt8.toNat_ofNat']; omega

/-- well-formed fields: what the 16-byte header can carry -/
def WFWrap (t : Wrap) : Prop :=
  t.ec = t.cksum.length ∧ t.ec < 65536 ∧ t.rrc < 65536 ∧ t.seq < 18446744073709551616

/-- **C17 wrap_roundtrip.** -/
theorem wrap_roundtrip (t : Wrap) (h : WFWrap t) :
    Impl.unmarshalWrap (Impl.marshalWrap t) (t.flags &&& 1 == 1) = .ok t := by
  obtain ⟨h1, h2, h3, h4⟩ := h
  rw [wrap_layout t h1]
  obtain ⟨s0, s1, s2, s3, s4, s5, s6, s7, hs, hv⟩ := be64val_be64 t.seq h4
  unfold Spec.wrapToken Spec.wrapHeader
  rw [hs]
  simp only [be16, List.cons_append, List.nil_append, Impl.unmarshalWrap]
  have e1 := be16val t.ec h2
  have e2 := be16val t.rrc h3
  simp only [e1, e2, hv, ne_eq, not_true_eq_false, or_self, if_false, List.length_append]
  have e3 : ¬ (t.ec > t.payload.length + t.cksum.length) := by omega
  have e4 : t.payload.length + t.cksum.length - t.ec = t.payload.length := by omega
  cases hf : (t.flags &&& 1 == 1) <;>
    simp [e3, e4]

/-- **C17 wrap_decode_strict.** for every byte string: a successful decode implies the token
    identifier, the filler octet and the direction flag are the expected ones, and the checksum is the
    last EC octets -/
theorem wrap_decode_strict (b : Bytes) (expect : Bool) (t : Wrap)
    (h : Impl.unmarshalWrap b expect = .ok t) :
    b.take 2 = [0x05, 0x04] ∧ b.getD 3 0 = 0xFF ∧ (t.flags &&& 1 == 1) = expect ∧ t.flags = b.getD 2 0 ∧
      16 ≤ b.length ∧ t.ec ≤ b.length - 16 ∧ t.payload ++ t.cksum = b.drop 16 ∧
      t.cksum.length = t.ec := by
  match b, h with
  | t0 :: t1 :: flags :: fill :: e0 :: e1 :: r0 :: r1 :: s0 :: s1 :: s2 :: s3 :: s4 :: s5 :: s6 :: s7 :: rest, h =>
    simp only [Impl.unmarshalWrap] at h
    by_cases hid : t0 ≠ 0x05 ∨ t1 ≠ 0x04
    · simp [hid] at h
    · simp only [hid, if_false] at h
      split at h; · simp at h
      split at h; · simp at h
      rename_i hd1 hd2
      by_cases hfl : fill ≠ 0xFF
      · simp [hfl] at h
      · simp only [hfl, if_false] at h
        by_cases hec : e0.toNat * 256 + e1.toNat > rest.length
        · simp [hec] at h
        · simp only [hec, if_false, Except.ok.injEq] at h
          subst h
          have hid' : t0 = 0x05 ∧ t1 = 0x04 := by
            constructor
            · exact Classical.byContradiction (fun c => hid (Or.inl c))
            · exact Classical.byContradiction (fun c => hid (Or.inr c))
          have hfl' : fill = 0xFF := Classical.byContradiction (fun c => hfl c)
          simp only [List.take_succ_cons, List.take_zero, hid'.1, hid'.2, List.getD_cons_succ,
            List.getD_cons_zero, hfl', List.length_cons, List.drop_succ_cons, List.drop_zero,
            List.take_append_drop, List.length_drop, true_and]
          refine ⟨?_, by omega, by omega, by omega⟩
          cases expect <;> cases hfa : (flags &&& 1 == 1) <;> simp_all
  | [], h | [_], h | [_, _], h | [_, _, _], h | [_, _, _, _], h | [_, _, _, _, _], h
  | [_, _, _, _, _, _], h | [_, _, _, _, _, _, _], h | [_, _, _, _, _, _, _, _], h
  | [_, _, _, _, _, _, _, _, _], h | [_, _, _, _, _, _, _, _, _, _], h
  | [_, _, _, _, _, _, _, _, _, _, _], h | [_, _, _, _, _, _, _, _, _, _, _, _], h
  | [_, _, _, _, _, _, _, _, _, _, _, _, _], h | [_, _, _, _, _, _, _, _, _, _, _, _, _, _], h
  | [_, _, _, _, _, _, _, _, _, _, _, _, _, _, _], h => simp [Impl.unmarshalWrap] at h

/-- **C17 mic_roundtrip.** -/
theorem mic_roundtrip (t : Mic) (h : t.seq < 18446744073709551616) :
    Impl.unmarshalMic (Impl.marshalMic t) (t.flags &&& 1 != 0) = .ok t := by
  obtain ⟨s0, s1, s2, s3, s4, s5, s6, s7, hs, hv⟩ := be64val_be64 t.seq h
  unfold Impl.marshalMic Spec.micHeader
  rw [hs]
  simp only [List.cons_append, List.nil_append, Impl.unmarshalMic, hv, ne_eq, not_true_eq_false,
    or_self, if_false]
  cases hf : (t.flags &&& 1 != 0) <;> simp

/-- **C17 mic_decode_strict.** -/
theorem mic_decode_strict (b : Bytes) (expect : Bool) (t : Mic)
    (h : Impl.unmarshalMic b expect = .ok t) :
    b.take 2 = [0x04, 0x04] ∧ (b.drop 3).take 5 = [0xFF, 0xFF, 0xFF, 0xFF, 0xFF] ∧
      (t.flags &&& 1 != 0) = expect ∧ t.flags = b.getD 2 0 ∧ t.cksum = b.drop 16 := by
  match b, h with
  | t0 :: t1 :: flags :: f0 :: f1 :: f2 :: f3 :: f4 :: s0 :: s1 :: s2 :: s3 :: s4 :: s5 :: s6 :: s7 :: rest, h =>
    simp only [Impl.unmarshalMic] at h
    by_cases hid : t0 ≠ 0x04 ∨ t1 ≠ 0x04
    · simp [hid] at h
    · simp only [hid, if_false] at h
      split at h; · simp at h
      split at h; · simp at h
      by_cases hfl : f0 ≠ 0xFF ∨ f1 ≠ 0xFF ∨ f2 ≠ 0xFF ∨ f3 ≠ 0xFF ∨ f4 ≠ 0xFF
      · simp [hfl] at h
      · simp only [hfl, if_false, Except.ok.injEq] at h
        subst h
        have hid' : t0 = 0x04 ∧ t1 = 0x04 := by
          constructor
          · exact Classical.byContradiction (fun c => hid (Or.inl c))
          · exact Classical.byContradiction (fun c => hid (Or.inr c))
        have hf : f0 = 0xFF ∧ f1 = 0xFF ∧ f2 = 0xFF ∧ f3 = 0xFF ∧ f4 = 0xFF := by
          refine ⟨?_, ?_, ?_, ?_, ?_⟩ <;> apply Classical.byContradiction <;> intro c <;> apply hfl
          · exact Or.inl c
          · exact Or.inr (Or.inl c)
          · exact Or.inr (Or.inr (Or.inl c))
          · exact Or.inr (Or.inr (Or.inr (Or.inl c)))
          · exact Or.inr (Or.inr (Or.inr (Or.inr c)))
        simp only [List.take_succ_cons, List.take_zero, hid'.1, hid'.2, List.getD_cons_succ,
          List.getD_cons_zero, hf.1, hf.2.1, hf.2.2.1, hf.2.2.2.1, hf.2.2.2.2, List.drop_succ_cons,
          List.drop_zero, true_and]
        cases expect <;> cases hfa : (flags &&& 1 != 0) <;> simp_all
  | [], h | [_], h | [_, _], h | [_, _, _], h | [_, _, _, _], h | [_, _, _, _, _], h
  | [_, _, _, _, _, _], h | [_, _, _, _, _, _, _], h | [_, _, _, _, _, _, _, _], h
  | [_, _, _, _, _, _, _, _, _], h | [_, _, _, _, _, _, _, _, _, _], h
  | [_, _, _, _, _, _, _, _, _, _, _], h | [_, _, _, _, _, _, _, _, _, _, _, _], h
  | [_, _, _, _, _, _, _, _, _, _, _, _, _], h | [_, _, _, _, _, _, _, _, _, _, _, _, _, _], h
  | [_, _, _, _, _, _, _, _, _, _, _, _, _, _, _], h => simp [Impl.unmarshalMic] at h

/-! ## verification -/

variable {P : Prims}

/-- **C17 wrap_verify_iff.** -/
theorem wrap_verify_iff (et : EType) (key : Bytes) (usage : Nat) (t : Wrap) :
    Impl.verifyWrap P et key usage t = true ↔
      t.cksum = checksum P et key usage (t.payload ++ Spec.wrapHeader t.flags 0 0 t.seq) := by
  simp [Impl.verifyWrap, Spec.wrapCksum, Spec.wrapCksumInput]

/-- **C17 mic_verify_iff.** -/
theorem mic_verify_iff (et : EType) (key : Bytes) (usage : Nat) (t : Mic) (payload : Bytes) :
    Impl.verifyMic P et key usage t payload = true ↔
      t.cksum = checksum P et key usage (payload ++ Spec.micHeader t.flags t.seq) := by
  simp [Impl.verifyMic, Spec.micCksum, Spec.micCksumInput]

theorem be64_inj (a b : Nat) (ha : a < 18446744073709551616) (hb : b < 18446744073709551616)
    (h : be64 a = be64 b) : a = b := by
  obtain ⟨s0, s1, s2, s3, s4, s5, s6, s7, e1, v1⟩ := be64val_be64 a ha
  obtain ⟨s0', s1', s2', s3', s4', s5', s6', s7', e2, v2⟩ := be64val_be64 b hb
  rw [e1, e2] at h
  simp only [List.cons.injEq, and_true] at h
  obtain ⟨q0, q1, q2, q3, q4, q5, q6, q7⟩ := h
  subst q0 q1 q2 q3 q4 q5 q6 q7
  rw [← v1, ← v2]

theorem append_inj_right_len {a a' b b' : Bytes} (h : a ++ b = a' ++ b') (hl : b.length = b'.length) :
    a = a' ∧ b = b' := by
  have hl2 : a.length = a'.length := by
    have := congrArg List.length h
    simp at this; omega
  exact List.append_inj h hl2

/-- **C17 wrap_input_injective.** the checksummed string determines payload, flags and sequence number -/
theorem wrap_input_injective (f f' : UInt8) (s s' : Nat) (p p' : Bytes)
    (hs : s < 18446744073709551616) (hs' : s' < 18446744073709551616)
    (h : Spec.wrapCksumInput f s p = Spec.wrapCksumInput f' s' p') : p = p' ∧ f = f' ∧ s = s' := by
  unfold Spec.wrapCksumInput at h
  obtain ⟨hp, hh⟩ := append_inj_right_len h (by simp [Spec.wrapHeader])
  refine ⟨hp, ?_, ?_⟩
  · simp [Spec.wrapHeader] at hh; exact hh.1
  · apply be64_inj s s' hs hs'
    simp only [Spec.wrapHeader, List.append_assoc, List.cons_append, List.nil_append,
      List.cons.injEq, true_and] at hh
    have := hh.2
    simp only [be16, List.cons_append, List.nil_append, List.cons.injEq, true_and] at this
    exact this

/-- **C17 mic_input_injective.** -/
theorem mic_input_injective (f f' : UInt8) (s s' : Nat) (p p' : Bytes)
    (hs : s < 18446744073709551616) (hs' : s' < 18446744073709551616)
    (h : Spec.micCksumInput f s p = Spec.micCksumInput f' s' p') : p = p' ∧ f = f' ∧ s = s' := by
  unfold Spec.micCksumInput at h
  obtain ⟨hp, hh⟩ := append_inj_right_len h (by simp [Spec.micHeader])
  refine ⟨hp, ?_, ?_⟩
  · simp [Spec.micHeader] at hh; exact hh.1
  · apply be64_inj s s' hs hs'
    simp only [Spec.micHeader, List.cons_append, List.nil_append, List.cons.injEq, true_and] at hh
    exact hh.2

/-- **C17 wrap_binds.** If a checksum computed for (payload, flags, seq) verifies for a token whose
    payload, flags or sequence number differ, the keyed checksum collides on two different strings. -/
theorem wrap_binds (et : EType) (key : Bytes) (usage : Nat) (t t' : Wrap)
    (hs : t.seq < 18446744073709551616) (hs' : t'.seq < 18446744073709551616)
    (hck : t'.cksum = t.cksum)
    (hdiff : t.payload ≠ t'.payload ∨ t.flags ≠ t'.flags ∨ t.seq ≠ t'.seq)
    (hv : Impl.verifyWrap P et key usage t = true) (hv' : Impl.verifyWrap P et key usage t' = true) :
    ∃ m m', m ≠ m' ∧ checksum P et key usage m = checksum P et key usage m' := by
  rw [wrap_verify_iff] at hv hv'
  refine ⟨Spec.wrapCksumInput t.flags t.seq t.payload, Spec.wrapCksumInput t'.flags t'.seq t'.payload, ?_, ?_⟩
  · intro e
    obtain ⟨a, b, c⟩ := wrap_input_injective _ _ _ _ _ _ hs hs' e
    rcases hdiff with d | d | d
    · exact d a
    · exact d b
    · exact d c
  · unfold Spec.wrapCksumInput; rw [← hv, ← hv', hck]

/-! ## non-vacuity -/
example : WFWrap { flags := 1, ec := 2, rrc := 0, seq := 4294967296, payload := [1, 2, 3], cksum := [9, 9] } := by
  simp [WFWrap]

example : Impl.unmarshalWrap (Impl.marshalWrap
    { flags := 1, ec := 2, rrc := 0, seq := 4294967296, payload := [1, 2, 3], cksum := [9, 9] }) true
    = .ok { flags := 1, ec := 2, rrc := 0, seq := 4294967296, payload := [1, 2, 3], cksum := [9, 9] } :=
  wrap_roundtrip _ (by simp [WFWrap])

end Krb.C17
