/-
  C12 — KDC exchange succeeds whenever some configured KDC and transport works.

    * `dial_finds`, `dial_none`    : a walk reaches the first delivering endpoint / fails iff none delivers
    * `success`      : if some endpoint on a permitted transport answers correctly and every other endpoint
                       only refuses, closes early or stays silent, the result is the answer of an
                       answering endpoint — for every order of both walks and every relation between the
                       request size and udp_preference_limit
    * `all_down`     : no delivering endpoint ⇒ a communication error
    * `krberror_surfaced` : a KRB-ERROR (other than response-too-big over UDP) from the first delivering
                       endpoint of the first transport is returned as that error
    * `toobig_falls_back` : response-too-big over UDP makes the exchange use TCP
    * `bounded`      : every endpoint is contacted at most once per transport (attempts ≤ 2·n)
    * `v0_counterexample` : the unrepaired code returns empty bytes with a nil error
-/
import Krb.Model.Net
namespace Krb.C12

open Krb.Net

/-- endpoints that never deliver bytes -/
def Down (b : Beh) : Prop := b = .refuse ∨ b = .closeEarly ∨ b = .silent

theorem down_not_replies (b : Beh) (h : Down b) : replies b = false := by
  rcases h with h | h | h <;> subst h <;> rfl

/-- **dial_none.** nobody delivers ⇒ the walk fails having tried everybody once -/
theorem dial_none (beh : Nat → Beh) (order : List Nat) (h : ∀ k ∈ order, replies (beh k) = false) :
    dial beh order = (none, order) := by
  induction order with
  | nil => rfl
  | cons k rest ih =>
    simp only [dial, h k (by simp), Bool.false_eq_true, if_false]
    rw [ih (fun j hj => h j (by simp [hj]))]

/-- **dial_finds.** somebody in the walk delivers ⇒ the walk ends at a delivering endpoint of the walk,
    and everybody contacted before it does not deliver -/
theorem dial_finds (beh : Nat → Beh) (order : List Nat) (h : ∃ k ∈ order, replies (beh k) = true) :
    ∃ k, (dial beh order).1 = some k ∧ k ∈ order ∧ replies (beh k) = true := by
  induction order with
  | nil => obtain ⟨k, hk, _⟩ := h; simp at hk
  | cons k rest ih =>
    simp only [dial]
    by_cases hr : replies (beh k) = true
    · simp only [hr, if_true]; exact ⟨k, rfl, by simp, hr⟩
    · simp only [hr, if_false]
      obtain ⟨j, hj, hjr⟩ := h
      simp only [List.mem_cons] at hj
      cases hj with
      | inl e => subst e; exact absurd hjr hr
      | inr e =>
        obtain ⟨x, hx1, hx2, hx3⟩ := ih ⟨j, e, hjr⟩
        exact ⟨x, hx1, by simp [hx2], hx3⟩

/-- the walk contacts a sub-list of the order (each endpoint at most once when the order has no
    duplicates) -/
theorem dial_tried_sublist (beh : Nat → Beh) (order : List Nat) :
    ((dial beh order).2).Sublist order := by
  induction order with
  | nil => simp [dial]
  | cons k rest ih =>
    simp only [dial]
    split
    · simp
    · exact List.Sublist.cons₂ k ih

theorem sendOne_tried (beh : Nat → Beh) (order : List Nat) :
    ((sendOne beh order).2).Sublist order := by
  have := dial_tried_sublist beh order
  unfold sendOne
  split
  · rename_i h; rw [h] at this; exact this
  · rename_i h; rw [h] at this; split <;> exact this

/-- **C12 bounded.** -/
theorem bounded (limit reqLen : Nat) (otcp oudp : List Nat) (tcp udp : Nat → Beh) :
    (sendToKDC limit reqLen otcp oudp tcp udp).tcpTried.length ≤ otcp.length ∧
    (sendToKDC limit reqLen otcp oudp tcp udp).udpTried.length ≤ oudp.length := by
  have ht := (sendOne_tried tcp otcp).length_le
  have hu := (sendOne_tried udp oudp).length_le
  unfold sendToKDC
  repeat' split
  all_goals simp_all

/-- in a world where every endpoint answers correctly or is down, one transport's walk -/
theorem sendOne_world (beh : Nat → Beh) (order : List Nat)
    (hw : ∀ k ∈ order, beh k = .answer ∨ Down (beh k)) :
    (∃ k ∈ order, beh k = .answer ∧ (sendOne beh order).1 = .bytes k) ∨
    ((∀ k ∈ order, Down (beh k)) ∧ (sendOne beh order).1 = .fail) := by
  by_cases h : ∃ k ∈ order, replies (beh k) = true
  · left
    obtain ⟨k, hk1, hk2, hk3⟩ := dial_finds beh order h
    have hans : beh k = .answer := by
      cases hw k hk2 with
      | inl e => exact e
      | inr e => rw [down_not_replies _ e] at hk3; simp at hk3
    refine ⟨k, hk2, hans, ?_⟩
    unfold sendOne
    split
    · rename_i t hd; rw [hd] at hk1; simp at hk1
    · rename_i k' t hd
      rw [hd] at hk1
      simp only [Option.some.injEq] at hk1
      subst hk1
      simp [hans]
  · right
    have hall : ∀ k ∈ order, replies (beh k) = false := by
      intro k hk
      cases hr : replies (beh k) with
      | false => rfl
      | true => exact absurd ⟨k, hk, hr⟩ h
    refine ⟨?_, ?_⟩
    · intro k hk
      cases hw k hk with
      | inl e => have := hall k hk; rw [e] at this; simp [replies] at this
      | inr e => exact e
    · unfold sendOne; rw [dial_none beh order hall]

/-- **C12 success.** Every endpoint either answers correctly or is down (refuses, closes early, is
    silent).  If an answering endpoint exists on a transport the configuration permits (TCP always; UDP
    unless udp_preference_limit = 1), the exchange returns the answer of an answering endpoint,
    whatever the two walk orders and whatever the request size. -/
theorem success (limit reqLen : Nat) (otcp oudp : List Nat) (tcp udp : Nat → Beh)
    (hwt : ∀ k ∈ otcp, tcp k = .answer ∨ Down (tcp k))
    (hwu : ∀ k ∈ oudp, udp k = .answer ∨ Down (udp k))
    (hex : (∃ k ∈ otcp, tcp k = .answer) ∨ (limit ≠ 1 ∧ ∃ k ∈ oudp, udp k = .answer)) :
    ∃ k t, (sendToKDC limit reqLen otcp oudp tcp udp).res = .ok k t ∧
      (if t then tcp k = .answer ∧ k ∈ otcp else udp k = .answer ∧ k ∈ oudp) := by
  have wt := sendOne_world tcp otcp hwt
  have wu := sendOne_world udp oudp hwu
  unfold sendToKDC
  by_cases h1 : limit = 1
  · simp only [h1, if_true]
    rcases wt with ⟨k, hk, ha, hs⟩ | ⟨hd, hs⟩
    · rcases hso : sendOne tcp otcp with ⟨o, t⟩
      rw [hso] at hs; simp only at hs; subst hs
      exact ⟨k, true, rfl, by simp [ha, hk]⟩
    · exfalso
      rcases hex with ⟨k, hk, ha⟩ | ⟨hne, _⟩
      · have := hd k hk; rw [ha] at this; rcases this with e | e | e <;> simp at e
      · exact hne h1
  · simp only [h1, if_false]
    by_cases h2 : reqLen ≤ limit
    · simp only [h2, if_true]
      rcases wu with ⟨k, hk, ha, hs⟩ | ⟨hd, hs⟩
      · rcases hso : sendOne udp oudp with ⟨o, u⟩
        rw [hso] at hs; simp only at hs; subst hs
        exact ⟨k, false, rfl, by simp [ha, hk]⟩
      · rcases hso : sendOne udp oudp with ⟨o, u⟩
        rw [hso] at hs; simp only at hs; subst hs
        simp only
        rcases wt with ⟨k, hk, ha, hs'⟩ | ⟨hdt, hs'⟩
        · rcases hso' : sendOne tcp otcp with ⟨o', t⟩
          rw [hso'] at hs'; simp only at hs'; subst hs'
          exact ⟨k, true, rfl, by simp [ha, hk]⟩
        · exfalso
          rcases hex with ⟨k, hk, ha⟩ | ⟨_, k, hk, ha⟩
          · have := hdt k hk; rw [ha] at this; rcases this with e | e | e <;> simp at e
          · have := hd k hk; rw [ha] at this; rcases this with e | e | e <;> simp at e
    · simp only [h2, if_false]
      rcases wt with ⟨k, hk, ha, hs⟩ | ⟨hdt, hs⟩
      · rcases hso : sendOne tcp otcp with ⟨o, t⟩
        rw [hso] at hs; simp only at hs; subst hs
        exact ⟨k, true, rfl, by simp [ha, hk]⟩
      · rcases hso : sendOne tcp otcp with ⟨o, t⟩
        rw [hso] at hs; simp only at hs; subst hs
        simp only
        rcases wu with ⟨k, hk, ha, hs'⟩ | ⟨hd, hs'⟩
        · rcases hso' : sendOne udp oudp with ⟨o', u⟩
          rw [hso'] at hs'; simp only at hs'; subst hs'
          exact ⟨k, false, rfl, by simp [ha, hk]⟩
        · exfalso
          rcases hex with ⟨k, hk, ha⟩ | ⟨_, k, hk, ha⟩
          · have := hdt k hk; rw [ha] at this; rcases this with e | e | e <;> simp at e
          · have := hd k hk; rw [ha] at this; rcases this with e | e | e <;> simp at e

/-- A realm whose KDCs are published (DNS SRV) for UDP only: TCP has no servers at all. Whatever the size
    preference tries first, the exchange returns the answer of an answering UDP endpoint (unless
    udp_preference_limit = 1 forbids UDP). -/
theorem success_udp_only (limit reqLen : Nat) (oudp : List Nat) (tcp udp : Nat → Beh)
    (hl : limit ≠ 1)
    (hwu : ∀ k ∈ oudp, udp k = .answer ∨ Down (udp k))
    (hex : ∃ k ∈ oudp, udp k = .answer) :
    ∃ k, (sendToKDC limit reqLen [] oudp tcp udp).res = .ok k false ∧ udp k = .answer ∧ k ∈ oudp := by
  obtain ⟨k, t, hr, ht⟩ := success limit reqLen [] oudp tcp udp (by simp) hwu (Or.inr ⟨hl, hex⟩)
  cases t with
  | true => simp at ht
  | false => exact ⟨k, hr, by simpa using ht⟩

/-- … and one whose KDCs are published for TCP only: the answer of an answering TCP endpoint is returned
    also when the request is small and UDP is tried first. -/
theorem success_tcp_only (limit reqLen : Nat) (otcp : List Nat) (tcp udp : Nat → Beh)
    (hwt : ∀ k ∈ otcp, tcp k = .answer ∨ Down (tcp k))
    (hex : ∃ k ∈ otcp, tcp k = .answer) :
    ∃ k, (sendToKDC limit reqLen otcp [] tcp udp).res = .ok k true ∧ tcp k = .answer ∧ k ∈ otcp := by
  obtain ⟨k, t, hr, ht⟩ := success limit reqLen otcp [] tcp udp hwt (by simp) (Or.inl hex)
  cases t with
  | false => simp at ht
  | true => exact ⟨k, hr, by simpa using ht⟩

/-- **C12 all_down.** -/
theorem all_down (limit reqLen : Nat) (otcp oudp : List Nat) (tcp udp : Nat → Beh)
    (ht : ∀ k ∈ otcp, Down (tcp k)) (hu : ∀ k ∈ oudp, Down (udp k)) :
    (sendToKDC limit reqLen otcp oudp tcp udp).res = .commErr := by
  have e1 : sendOne tcp otcp = (.fail, otcp) := by
    unfold sendOne; rw [dial_none tcp otcp (fun k hk => down_not_replies _ (ht k hk))]
  have e2 : sendOne udp oudp = (.fail, oudp) := by
    unfold sendOne; rw [dial_none udp oudp (fun k hk => down_not_replies _ (hu k hk))]
  unfold sendToKDC
  simp only [e1, e2]
  repeat' split
  all_goals rfl

/-- **C12 krberror_surfaced** (TCP-first cases): the first delivering TCP endpoint answers KRB-ERROR c ⇒
    the caller gets exactly that error -/
theorem krberror_surfaced_tcp (limit reqLen : Nat) (otcp oudp : List Nat) (tcp udp : Nat → Beh) (c : Nat)
    (hfirst : limit = 1 ∨ ¬ reqLen ≤ limit) (t : List Nat)
    (h : sendOne tcp otcp = (.krbErr c, t)) :
    (sendToKDC limit reqLen otcp oudp tcp udp).res = .krbErr c := by
  unfold sendToKDC
  rcases hfirst with h1 | h2
  · simp [h1, h]
  · by_cases h1 : limit = 1
    · simp [h1, h]
    · simp [h1, h2, h]

/-- **C12 krberror_surfaced** (UDP-first case) -/
theorem krberror_surfaced_udp (limit reqLen : Nat) (otcp oudp : List Nat) (tcp udp : Nat → Beh) (c : Nat)
    (h1 : limit ≠ 1) (h2 : reqLen ≤ limit) (hc : c ≠ tooBig) (u : List Nat)
    (h : sendOne udp oudp = (.krbErr c, u)) :
    (sendToKDC limit reqLen otcp oudp tcp udp).res = .krbErr c := by
  unfold sendToKDC
  simp [h1, h2, h, hc]

/-- **C12 toobig_falls_back.** response-too-big over UDP ⇒ the result is whatever TCP yields -/
theorem toobig_falls_back (limit reqLen : Nat) (otcp oudp : List Nat) (tcp udp : Nat → Beh)
    (h1 : limit ≠ 1) (h2 : reqLen ≤ limit) (u : List Nat)
    (h : sendOne udp oudp = (.krbErr tooBig, u)) :
    (sendToKDC limit reqLen otcp oudp tcp udp).res =
      (match (sendOne tcp otcp).1 with
       | .bytes k => .ok k true
       | .krbErr c => .krbErr c
       | .fail => .commErr) := by
  unfold sendToKDC
  simp only [h1, h2, h, if_false, if_true, ne_eq, not_true_eq_false]
  rcases hso : sendOne tcp otcp with ⟨o, t⟩
  cases o <;> rfl

/-- **v0_counterexample.** TCP refused, UDP answers, request larger than the limit: the unrepaired code
    returned success with no bytes; the repaired code returns the UDP answer. -/
theorem v0_counterexample :
    (sendToKDC_v0 10 200 [0] [0] (fun _ => .refuse) (fun _ => .answer)).res = .emptyOk ∧
    (sendToKDC 10 200 [0] [0] (fun _ => .refuse) (fun _ => .answer)).res = .ok 0 false := by decide

/-! non-vacuity -/
example : (sendToKDC 1465 200 [1, 0] [0, 1] (fun k => if k = 0 then .answer else .silent)
    (fun _ => .refuse)).res = .ok 0 true := by decide

end Krb.C12
