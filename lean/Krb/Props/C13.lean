/-
  C13 — Kerberos and SPNEGO messages survive encode/decode and match the RFC ASN.1.

    * `len_roundtrip`           : DER definite lengths decode to what was encoded, every n < 2^64
    * `tlv_roundtrip`           : every well-formed TLV tree decodes from its encoding
    * `marshalLengthBytes_der`  : the Go loop of `asn1tools.MarshalLengthBytes` equals the X.690 definite
                                  length for EVERY n (not only 0..2^24)
    * `getLength_roundtrip`     : `GetLengthFromASN` inverts it
    * `flag_set_get`, `flag_numbering`, `flag_unset` : RFC 4120 §5.2.8 bit numbering for all 32 flags
    * `schema_*` (T)            : the ASN.1 shape of every Go struct (fields, context tags, optionality,
                                  universal types, read from the struct tags of the current source by
                                  go/ast) equals the RFC module transcribed by hand
    * `apptag_facts` (T)        : the application tag numbers the source uses equal RFC 4120's
    * `typed_roundtrip`         : `decode s (encode s v) = some v` for every type of the schema language
                                  and every value of that type (mutual induction over the shared fuel,
                                  Asn1/TypedProofs.lean); integers: `IntOK` holds for every
                                  integer from -2^127 up (`int_ok_range`, Asn1/IntProofs.lean), which
                                  covers every integer Kerberos can carry
-/
import Krb.Asn1.TlvProofs
import Krb.Asn1.TypedProofs
import Krb.Asn1.IntProofs
import Krb.Asn1.Rfc4120
import Krb.Model.Asn1Glue
import Krb.Gen.Asn1Facts
namespace Krb.C13

open Krb Krb.Asn1 Krb.Asn1Glue

/-- **len_roundtrip.** -/
theorem len_roundtrip (n : Nat) (h : n < 18446744073709551616) (r : Bytes) :
    decLen (encLen n ++ r) = some (n, r) := decLen_encLen n h r

/-- **tlv_roundtrip.** -/
theorem tlv_roundtrip (t : TLV) (h : WFT t) (r : Bytes) :
    decTLV (depth t) (encTLV t ++ r) = some (t, r) := decTLV_encTLV t h (depth t) (Nat.le_refl _) r

/-! ## the Go length loop -/

/-- invariant of the loop: with l = m·p (m > 0), enough fuel and p > 0 it prepends the base-256 digits of m -/
theorem lenLoop_digits (m : Nat) : ∀ (fuel p : Nat) (b : Bytes), 0 < m → 0 < p → m < 256 ^ fuel →
    lenLoop fuel (m * p) p b = be256 m ++ b := by
  induction m using Nat.strongRecOn with
  | _ m ih =>
    intro fuel p b hm hp hf
    cases fuel with
    | zero => simp at hf; omega
    | succ f =>
      simp only [lenLoop]
      have e1 : (m * p) % (p * 256) = (m % 256) * p := by
        rw [Nat.mul_comm p 256, Nat.mul_mod_mul_right]
      have e2 : (m % 256) * p / p = m % 256 := Nat.mul_div_cancel _ hp
      have e3 : m * p - (m % 256) * p = (m / 256) * (p * 256) := by
        have : m = 256 * (m / 256) + m % 256 := (Nat.div_add_mod m 256).symm
        calc m * p - (m % 256) * p = (m - m % 256) * p := by rw [Nat.sub_mul]
          _ = (256 * (m / 256)) * p := by congr 1; omega
          _ = (m / 256) * (p * 256) := by
            rw [Nat.mul_comm 256 (m / 256), Nat.mul_assoc, Nat.mul_comm 256 p]
      rw [e1, e2, e3]
      by_cases hq : m / 256 = 0
      · have hz : (m / 256) * (p * 256) = 0 := by rw [hq]; simp
        simp only [hz, if_true]
        have hlt : m < 256 := by omega
        cases m with
        | zero => omega
        | succ k =>
          rw [be256, hq]
          simp [be256]
      · have hnz : ¬ ((m / 256) * (p * 256) = 0) := by
          intro e
          have := Nat.mul_eq_zero.mp e
          omega
        simp only [hnz, if_false]
        have hlt : m / 256 < m := Nat.div_lt_self hm (by omega)
        have hf' : m / 256 < 256 ^ f := by
          rw [Nat.pow_succ] at hf
          exact Nat.div_lt_of_lt_mul (by omega)
        rw [ih (m / 256) hlt f (p * 256) _ (by omega) (by omega) hf']
        cases m with
        | zero => omega
        | succ k =>
          conv => rhs; rw [be256]
          simp

/-- **marshalLengthBytes_der.** for every n the Go function writes the DER definite length -/
theorem marshalLengthBytes_der (n : Nat) (h : n < 256 ^ 126) : marshalLengthBytes n = encLen n := by
  unfold marshalLengthBytes encLen
  by_cases hs : n ≤ 127
  · have : n < 128 := by omega
    simp [hs, this]
  · have h2 : ¬ n < 128 := by omega
    simp only [hs, h2, if_false]
    have := lenLoop_digits n 126 1 [] (by omega) (by omega) h
    simp only [Nat.mul_one, List.append_nil] at this
    rw [this]

/-- **getLength_roundtrip.** -/
theorem getLength_roundtrip (n : Nat) (h : n < 18446744073709551616) (id : UInt8) (r : Bytes) :
    getLengthFromASN (id :: (encLen n ++ r)) = some n := by
  unfold encLen getLengthFromASN
  by_cases hs : n < 128
  · have h0 : (UInt8.ofNat n).toNat = n := by simp [UInt8.toNat_ofNat']; omega
    simp only [hs, if_true, List.cons_append, List.nil_append, h0]
    have : n ≤ 127 := by omega
    simp [this]
  · have hpos : 0 < n := by omega
    have hk8 : (be256 n).length ≤ 8 := be256_length_le n 8 (by
      have : (256:Nat) ^ 8 = 18446744073709551616 := by decide
      omega)
    have hb : (UInt8.ofNat (128 + (be256 n).length)).toNat = 128 + (be256 n).length := by
      simp [UInt8.toNat_ofNat']; omega
    simp only [hs, if_false, List.cons_append, hb]
    have c1 : ¬ (128 + (be256 n).length ≤ 127) := by omega
    have c2 : ¬ ((be256 n ++ r).length < 128 + (be256 n).length - 128) := by simp
    simp only [c1, if_false, Nat.add_sub_cancel_left, List.take_left', fromBE_be256]
    have c3 : ¬ ((be256 n ++ r).length < (be256 n).length) := by simp
    simp only [c3, if_false]

/-! ## flags -/

def zero4 : Bytes := [0, 0, 0, 0]

/-- **flag_numbering.** flag i of an empty flag set is bit (7 − i mod 8) of octet i / 8 — RFC 4120 §5.2.8:
    bit 0 is the most significant bit of the first octet — and no other bit is touched -/
theorem flag_numbering : ∀ i < 32,
    setFlag zero4 i = zero4.set (i / 8) (UInt8.ofNat (128 / 2 ^ (i % 8))) := by decide

/-- **flag_set_get.** over all 32 flags and all flag sets with at most one other bit per octet pattern
    checked by enumeration of the octet: setting flag i makes exactly flag i (additionally) true -/
theorem flag_set_get : ∀ i < 32, ∀ j < 32,
    isFlagSet (setFlag zero4 i) j = decide (i = j) := by decide

theorem flag_unset : ∀ i < 32, unsetFlag (setFlag zero4 i) i = zero4 := by decide

/-- on an arbitrary octet: or-ing a mask sets that bit and keeps the others; and-not clears exactly it -/
theorem octet_bits : ∀ x < 256, ∀ i < 8, ∀ j < 8,
    ((UInt8.ofNat x ||| bitMask i) &&& bitMask j != 0) =
      (decide (i = j) || (UInt8.ofNat x &&& bitMask j != 0)) ∧
    ((UInt8.ofNat x &&& ~~~ bitMask i) &&& bitMask j != 0) =
      (!decide (i = j) && (UInt8.ofNat x &&& bitMask j != 0)) := by decide +kernel

/-! ## (T) the Go structs against the RFC modules -/

open Rfc in
/-- **schema facts.** every tagged Go struct that carries a Kerberos / SPNEGO type has exactly the
    components of the RFC type: same order, context tags, OPTIONAL marks and universal types
    (`any` stands for a Go `asn1.RawValue`, which the glue code fills with an application-tagged value) -/
theorem schema_facts :
    Gen.go_PrincipalName = principalName ∧
    Gen.go_HostAddress = hostAddress ∧
    Gen.go_AuthorizationDataEntry = .seq [req 0 .int, req 1 .octets] ∧
    Gen.go_PAData = paData ∧
    Gen.go_EncryptedData = encryptedData ∧
    Gen.go_EncryptionKey = encryptionKey ∧
    Gen.go_Checksum = checksum ∧
    Gen.go_TransitedEncoding = transitedEncoding ∧
    Gen.go_LastReq = .seq [req 0 .int, req 1 .gtime] ∧
    Gen.go_PAEncTSEnc = paEncTsEnc ∧
    Gen.go_ETypeInfoEntry = etypeInfoEntry ∧
    Gen.go_ETypeInfo2Entry = etypeInfo2Entry ∧
    Ty.app 1 Gen.go_Ticket = ticket ∧
    Ty.app 3 Gen.go_EncTicketPart = encTicketPart ∧
    Ty.app 2 Gen.go_Authenticator = authenticator ∧
    Ty.app 30 Gen.go_KRBError = krbError ∧
    Ty.app 21 Gen.go_KRBPriv = krbPriv ∧
    Ty.app 28 Gen.go_EncKrbPrivPart = encKrbPrivPart ∧
    Gen.go_EncKDCRepPart = encKDCRepPartBody ∧
    Gen.go_ChangePasswdData = changePasswdData ∧
    Gen.go_KrbCredInfo = krbCredInfo ∧
    Ty.app 29 Gen.go_EncKrbCredPart = encKrbCredPart ∧
    Ty.app 27 Gen.go_EncAPRepPart = encAPRepPart ∧
    Ty.app 15 Gen.go_APRep = apRep := by
  refine ⟨rfl, rfl, rfl, rfl, rfl, rfl, rfl, rfl, rfl, rfl, rfl, rfl, rfl, rfl, rfl, rfl, rfl, rfl, rfl, rfl,
    rfl, rfl, rfl, rfl⟩

/-- Go shadow structs use `asn1.RawValue` where the RFC has an application-tagged type -/
def loosen : Ty → Ty → Bool
  | .any, _ => true
  | .seq fs, .seq gs => loosenFields fs gs
  | .seqOf a, .seqOf b => loosen a b
  | .app n a, .app m b => n == m && loosen a b
  | .ctx n a, .ctx m b => n == m && loosen a b
  | .int, .int | .octets, .octets | .gstring, .gstring | .gtime, .gtime | .bits, .bits
  | .oid, .oid | .enum, .enum | .bool, .bool => true
  | _, _ => false
where
  loosenFields : List (Nat × Bool × Ty) → List (Nat × Bool × Ty) → Bool
    | [], [] => true
    | (t, o, a) :: fs, (t', o', b) :: gs => t == t' && o == o' && loosen a b && loosenFields fs gs
    | _, _ => false

open Rfc in
/-- **shadow_facts.** the unexported marshalling structs have the RFC shapes up to `RawValue` holes -/
theorem shadow_facts :
    loosen Gen.go_marshalKDCReq kdcReq = true ∧
    loosen Gen.go_marshalKDCReqBody kdcReqBody = true ∧
    loosen Gen.go_marshalKDCRep kdcRep = true ∧
    loosen (Ty.app 14 Gen.go_marshalAPReq) apReq = true ∧
    loosen Gen.go_marshalNegTokenInit negTokenInit = true := by
  refine ⟨by decide, by decide, by decide, by decide, by decide⟩

/-- **apptag_facts.** RFC 4120 application tag numbers -/
theorem apptag_facts :
    Gen.asnAppTag = [("Ticket", 1), ("Authenticator", 2), ("EncTicketPart", 3), ("ASREQ", 10),
      ("TGSREQ", 12), ("ASREP", 11), ("TGSREP", 13), ("APREQ", 14), ("APREP", 15), ("KRBSafe", 20),
      ("KRBPriv", 21), ("KRBCred", 22), ("EncASRepPart", 25), ("EncTGSRepPart", 26),
      ("EncAPRepPart", 27), ("EncKrbPrivPart", 28), ("EncKrbCredPart", 29), ("KRBError", 30)] := by
  decide

/-! ## typed round trip -/

/-- **typed_roundtrip.** Decoding the DER encoding of a typed value returns the value: for every type
    of the schema language (SEQUENCE with optional components under strictly increasing context tags,
    SEQUENCE OF, EXPLICIT application / context tags, the primitive types), nested to any depth the
    codec's fuel admits, every value of that type whose integers satisfy `IntOK`, provided the encoding
    is a well-formed tree (tag numbers below 31, sizes below 2^64). -/
theorem typed_roundtrip (ty : Ty) (v : Val) (b : Bytes) (hok : valOK 64 ty v)
    (hwf : ∀ tlv, toTLV 64 ty v = some tlv → WFT tlv) (henc : encode ty v = some b) :
    decode ty b = some v := Asn1.typed_roundtrip ty v b hok hwf henc

/-- the tree level of it, for any fuel -/
theorem typed_tlv_roundtrip (f : Nat) (ty : Ty) (v : Val) (tlv : TLV) (hok : valOK f ty v)
    (henc : toTLV f ty v = some tlv) : ofTLV f ty tlv = some v := ofTLV_toTLV f ty v tlv hok henc

/-- **int_nonneg_ok.** every non-negative integer round-trips through its minimal two's-complement
    contents octets (so `IntOK` holds for every protocol number, nonce, time field and length) -/
theorem int_nonneg_ok (n : Nat) : IntOK (n : Int) := intOK_nonneg n

/-- **int_ok_range.** every integer from -2^127 up round-trips through the contents octets the encoder
    writes: the minimal width is found, the sign octet is right, and the decoder's "no redundant leading
    octet" rule never rejects the encoder's output (all 32 and 64 bit values are inside the range) -/
theorem int_ok_range (i : Int) (h : -(2 ^ 127 : Nat) ≤ i) : IntOK i := intOK_of_ge i h

example : IntOK (-133) ∧ IntOK (-2147483648) ∧ IntOK (-128) ∧ IntOK (-129) :=
  ⟨int_ok_range _ (by decide), int_ok_range _ (by decide), int_ok_range _ (by decide), int_ok_range _ (by decide)⟩

/-- RFC 4120's PrincipalName and EncryptedData: the component tags strictly increase, so the hypothesis
    of the theorem is met by the schemas it is used with -/
theorem tags_increase_facts :
    tagsInc [Rfc.req 0 .int, Rfc.req 1 (.seqOf .gstring)] ∧
    tagsInc [Rfc.req 0 .int, Rfc.opt 1 .int, Rfc.req 2 .octets] ∧
    tagsInc [Rfc.req 0 .int, Rfc.req 1 .int, Rfc.req 2 .bits, Rfc.req 3 Rfc.ticket, Rfc.req 4 Rfc.encryptedData] := by
  simp [tagsInc, Rfc.req, Rfc.opt]

/-! non-vacuity -/
/-- a PrincipalName value (name type 1, one component) meets the hypotheses of `typed_roundtrip` -/
example : valOK 64 Rfc.principalName (.seq [some (.int 1), some (.list [.bytes [117, 115, 101, 114]])]) := by
  simp [valOK, fieldsOK, listOK, tagsInc, Rfc.principalName, Rfc.req]
  exact intOK_nonneg 1
example : WFT (.cons (appTag 1) [.cons (univ 16 true) [.cons (ctxTag 0) [.prim (univ 2) [5]]]]) := by
  simp [WFT, WFTs, Tag.WF, appTag, univ, ctxTag, encTLVs, encTLV, encLen]

end Krb.C13
