/-
  C03 — the SPNEGO HTTP wrapper serves the inner handler only to authenticated requests.

  Theorems over `Krb.Spnego` (the model of spnego/http.go, spnego.go, negotiationToken.go,
  krb5Token.go over the Go-faithful decoder model), for every environment `E` (message decoders and the
  AP-REQ acceptor of C01 are parameters), every header value, every session state.
-/
import Krb.Model.Spnego
namespace Krb.C03
open Krb Krb.Spnego Krb.Spnego.Impl

/-- the request carries an AP-REQ that the service accepts, with identity `id` -/
def CarriesAccepted (E : Env) (h : Bytes) (id : Identity) : Prop :=
  ∃ der, Spec.headerAPReq E h = some der ∧ E.accept der = some id

def TokenAccepted (E : Env) (t : SpToken) (id : Identity) : Prop :=
  ∃ der, Spec.tokenAPReq E t = some der ∧ E.accept der = some id

/-! ### the token verification APIs -/

/-- `KRB5Token.Verify` says true only for a token holding an AP-REQ the acceptor accepts -/
theorem k5Verify_true (E : Env) (t : K5Tok) (s : Status) (id : Option Identity)
    (h : k5Verify E t = (true, s, id)) :
    ∃ der i, t.body = .apReq der ∧ E.accept der = some i ∧ id = some i ∧ s = .complete := by
  unfold k5Verify at h
  split at h
  · rename_i der hb
    split at h
    · rename_i i hi
      simp only [Prod.mk.injEq, true_and] at h
      exact ⟨der, i, hb, hi, h.2.symm, h.1.symm⟩
    · simp at h
  all_goals simp at h

theorem k5Verify_iff (E : Env) (t : K5Tok) (i : Identity) :
    k5Verify E t = (true, .complete, some i) ↔ ∃ der, t.body = .apReq der ∧ E.accept der = some i := by
  constructor
  · intro h
    obtain ⟨der, i', hb, hi, hid, _⟩ := k5Verify_true E t _ _ h
    simp only [Option.some.injEq] at hid
    exact ⟨der, hb, hid ▸ hi⟩
  · rintro ⟨der, hb, hi⟩
    simp only [k5Verify, hb, hi]

/-- the first component of every Verify result is true only together with `complete` and an identity -/
theorem k5Verify_shape (E : Env) (t : K5Tok) :
    (k5Verify E t).1 = true → ∃ i, k5Verify E t = (true, .complete, some i) := by
  intro h
  have : k5Verify E t = (true, (k5Verify E t).2.1, (k5Verify E t).2.2) := by
    rw [← h]
  obtain ⟨_, i, _, _, hid, hs⟩ := k5Verify_true E t _ _ this
  exact ⟨i, by rw [this, hid, hs]⟩

theorem k5Unmarshal_oid (E : Env) (b : Bytes) (k : K5Tok) (h : k5Unmarshal E b = some k) : k.oid = oidKRB5 := by
  unfold k5Unmarshal at h
  split at h
  · rename_i oid r _
    by_cases ho : oid ≠ oidKRB5
    · simp [ho] at h
    · simp only [ne_eq, Decidable.not_not] at ho
      subst ho
      simp only [ne_eq, not_true_eq_false, if_false] at h
      repeat' split at h
      all_goals first
        | (simp only [Option.some.injEq] at h; rw [← h])
        | simp at h
  · simp at h

theorem k5APReq_of (E : Env) (tb : Bytes) (mt : K5Tok) (der : Bytes) (h : k5Unmarshal E tb = some mt)
    (hb : mt.body = .apReq der) : Spec.k5APReq E tb = some der := by
  unfold Spec.k5APReq
  rw [h]
  cases mt with
  | mk oid body => simp only at hb; subst hb; rfl

theorem k5APReq_inv (E : Env) (tb der : Bytes) (h : Spec.k5APReq E tb = some der) :
    ∃ oid, k5Unmarshal E tb = some { oid, body := .apReq der } := by
  unfold Spec.k5APReq at h
  split at h
  · rename_i oid der' hk5
    simp only [Option.some.injEq] at h
    subst h
    exact ⟨oid, hk5⟩
  · simp at h

/-- `NegTokenInit.Verify` -/
theorem initVerify_true (E : Env) (n : NegInit) (s : Status) (id : Option Identity)
    (h : initVerify E k5Verify n = (true, s, id)) :
    ∃ tb der i, n.mechToken = some tb ∧ Spec.k5APReq E tb = some der ∧ E.accept der = some i ∧
      id = some i ∧ s = .complete := by
  unfold initVerify at h
  split at h
  · split at h
    · simp at h
    · rename_i tb htb
      split at h
      · simp at h
      · rename_i mt hmt
        obtain ⟨der, i, hb, hi, hid, hs⟩ := k5Verify_true E mt _ _ h
        exact ⟨tb, der, i, htb, k5APReq_of E tb mt der hmt hb, hi, hid, hs⟩
  · simp at h

/-- `NegTokenResp.Verify` -/
theorem respVerify_true (E : Env) (n : NegResp) (s : Status) (id : Option Identity)
    (h : respVerify E k5Verify n = (true, s, id)) :
    ∃ tb der i, n.responseToken = some tb ∧ Spec.k5APReq E tb = some der ∧ E.accept der = some i ∧
      id = some i ∧ s = .complete ∧ isKrbMech n.supportedMech = true := by
  unfold respVerify at h
  split at h
  · rename_i hm
    split at h
    · simp at h
    · rename_i tb htb
      split at h
      · simp at h
      · rename_i mt hmt
        obtain ⟨der, i, hb, hi, hid, hs⟩ := k5Verify_true E mt _ _ h
        exact ⟨tb, der, i, htb, k5APReq_of E tb mt der hmt hb, hi, hid, hs, hm⟩
  · simp at h

theorem initVerify_of (E : Env) (n : NegInit) (der : Bytes) (i : Identity)
    (hany : n.mechTypes.any isKrbMech = true) (hd : n.mechToken.bind (Spec.k5APReq E) = some der)
    (hi : E.accept der = some i) : initVerify E k5Verify n = (true, .complete, some i) := by
  unfold initVerify
  simp only [hany, if_true]
  cases htb : n.mechToken with
  | none => rw [htb] at hd; simp at hd
  | some tb =>
    rw [htb] at hd
    simp only [Option.bind_some] at hd
    obtain ⟨oid, hk5⟩ := k5APReq_inv E tb der hd
    simp only [hk5, k5Verify, hi]

theorem respVerify_of (E : Env) (n : NegResp) (der : Bytes) (i : Identity)
    (hk : isKrbMech n.supportedMech = true) (hd : n.responseToken.bind (Spec.k5APReq E) = some der)
    (hi : E.accept der = some i) : respVerify E k5Verify n = (true, .complete, some i) := by
  unfold respVerify
  simp only [hk, if_true]
  cases htb : n.responseToken with
  | none => rw [htb] at hd; simp at hd
  | some tb =>
    rw [htb] at hd
    simp only [Option.bind_some] at hd
    obtain ⟨oid, hk5⟩ := k5APReq_inv E tb der hd
    simp only [hk5, k5Verify, hi]

/-- `SPNEGO.AcceptSecContext`: success exactly for a token that puts forward an accepted AP-REQ for the
    Kerberos mechanism; it never panics -/
theorem accept_iff (E : Env) (t : SpToken) (i : Identity) :
    acceptSecContext E k5Verify t = .ok (true, .complete, some i) ↔ TokenAccepted E t i := by
  unfold TokenAccepted
  cases t with
  | init n =>
    unfold acceptSecContext Spec.tokenAPReq
    simp only
    cases hm : n.mechTypes with
    | nil => simp
    | cons o rest =>
      simp only
      by_cases hk : isKrbMech o = true
      · simp only [hk, if_true, Outcome.ok.injEq]
        have hany : n.mechTypes.any isKrbMech = true := by rw [hm]; simp [hk]
        constructor
        · intro h
          obtain ⟨tb, der, i', htb, hder, hi, hid, _⟩ := initVerify_true E n _ _ h
          simp only [Option.some.injEq] at hid
          exact ⟨der, by rw [htb]; simpa using hder, hid ▸ hi⟩
        · rintro ⟨der, hder, hi⟩
          exact initVerify_of E n der i hany hder hi
      · simp [hk]
  | resp n =>
    unfold acceptSecContext Spec.tokenAPReq
    simp only
    by_cases hk : isKrbMech n.supportedMech = true
    · simp only [hk, if_true, Outcome.ok.injEq]
      constructor
      · intro h
        obtain ⟨tb, der, i', htb, hder, hi, hid, _⟩ := respVerify_true E n _ _ h
        simp only [Option.some.injEq] at hid
        exact ⟨der, by rw [htb]; simpa using hder, hid ▸ hi⟩
      · rintro ⟨der, hder, hi⟩
        exact respVerify_of E n der i hk hder hi
    · simp [hk]

theorem accept_total (E : Env) (t : SpToken) : ∃ r, acceptSecContext E k5Verify t = .ok r := by
  unfold acceptSecContext
  cases t with
  | init n =>
    simp only
    cases n.mechTypes with
    | nil => exact ⟨_, rfl⟩
    | cons o rest => simp only; split <;> exact ⟨_, rfl⟩
  | resp n => simp only; split <;> exact ⟨_, rfl⟩

/-- whenever AcceptSecContext says true, the status is complete and the context holds the accepted identity -/
theorem accept_true (E : Env) (t : SpToken) (s : Status) (id : Option Identity)
    (h : acceptSecContext E k5Verify t = .ok (true, s, id)) :
    ∃ i, id = some i ∧ s = .complete ∧ TokenAccepted E t i := by
  have key : ∃ i, id = some i ∧ s = .complete := by
    unfold acceptSecContext at h
    cases t with
    | init n =>
      simp only at h
      cases hm : n.mechTypes with
      | nil => rw [hm] at h; simp at h
      | cons o rest =>
        rw [hm] at h
        simp only at h
        split at h
        · simp only [Outcome.ok.injEq, spVerify] at h
          obtain ⟨_, _, i, _, _, _, hid, hs⟩ := initVerify_true E n _ _ h
          exact ⟨i, hid, hs⟩
        · simp at h
    | resp n =>
      simp only at h
      split at h
      · simp only [Outcome.ok.injEq, spVerify] at h
        obtain ⟨_, _, i, _, _, _, hid, hs, _⟩ := respVerify_true E n _ _ h
        exact ⟨i, hid, hs⟩
      · simp at h
  obtain ⟨i, hid, hs⟩ := key
  subst hid hs
  exact ⟨i, rfl, rfl, (accept_iff E t i).mp h⟩

/-! ### the header -/

/-- the token the header parser hands on puts forward exactly the AP-REQ the header carries -/
theorem headerToken_spec (E : Env) (h : Bytes) (st : SpToken) (hh : headerToken E h = .ok st) :
    Spec.tokenAPReq E st = Spec.headerAPReq E h := by
  unfold headerToken at hh
  unfold Spec.headerAPReq
  split at hh
  · simp at hh
  · rename_i scheme v hs
    try simp only [hs]
    by_cases hn : scheme ≠ negotiate
    · simp [hn] at hh
    · simp only [hn, if_false] at hh ⊢
      split at hh
      · simp at hh
      · rename_i b hb
        try simp only [hb]
        split at hh
        · rename_i st' hst
          simp only [Except.ok.injEq] at hh
          subst hh
          try simp only [hst]
        · rename_i hst
          try simp only [hst]
          split at hh
          · simp at hh
          · rename_i k5 hk5
            simp only [Except.ok.injEq] at hh
            subst hh
            have ho := k5Unmarshal_oid E b k5 hk5
            simp [Spec.tokenAPReq, ho, isKrbMech]

theorem headerToken_error_none (E : Env) (h : Bytes) (c : Challenge) (hh : headerToken E h = .error c) :
    Spec.headerAPReq E h = none := by
  unfold headerToken at hh
  unfold Spec.headerAPReq
  split at hh
  · rename_i hs; simp [hs]
  · rename_i scheme v hs
    try simp only [hs]
    by_cases hn : scheme ≠ negotiate
    · simp [hn]
    · simp only [hn, if_false] at hh ⊢
      split at hh
      · rename_i hb; simp [hb]
      · rename_i b hb
        try simp only [hb]
        split at hh
        · simp at hh
        · rename_i hst
          try simp only [hst]
          split at hh
          · rename_i hk; simp [Spec.k5APReq, hk]
          · simp at hh

/-! ### the wrapped handler -/

abbrev H (E : Env) (r : Request) : Response := handle E k5Verify acceptSecContext r

/-- The wrapped handler runs exactly when the request belongs to an authenticated session (then with the
    session's identity) or carries an accepted AP-REQ (then with the accepted identity, provided a new
    session could be stored when a session manager is configured). -/
theorem served_iff (E : Env) (r : Request) (id : Identity) (fresh : Bool) :
    H E r = .served id fresh ↔
      (fresh = false ∧ sessionIdentity r.session = some id) ∨
      (fresh = true ∧ sessionIdentity r.session = none ∧ CarriesAccepted E r.authorization id ∧
        ¬ (r.session ≠ .noManager ∧ r.newSessionFails = true)) := by
  unfold H handle
  cases hsid : sessionIdentity r.session with
  | some sid =>
    simp only [Response.served.injEq, Option.some.injEq]
    constructor
    · rintro ⟨h1, h2⟩; exact Or.inl ⟨h2.symm, h1⟩
    · rintro (⟨h1, h2⟩ | ⟨_, h2, _⟩)
      · exact ⟨h2, h1.symm⟩
      · simp at h2
  | none =>
    simp only [false_and, reduceCtorEq, and_false, false_or, true_and]
    cases hh : headerToken E r.authorization with
    | error c =>
      simp only [reduceCtorEq, false_iff]
      rintro ⟨_, ⟨der, hd, _⟩, _⟩
      rw [headerToken_error_none E _ c hh] at hd
      simp at hd
    | ok st =>
      simp only
      have hspec := headerToken_spec E _ st hh
      obtain ⟨res, hres⟩ := accept_total E st
      obtain ⟨authed, status, oid⟩ := res
      rw [hres]
      simp only
      by_cases h1 : status ≠ .complete ∧ status ≠ .continueNeeded
      · rw [if_pos h1]
        simp only [reduceCtorEq, false_iff]
        rintro ⟨_, ⟨der, hd, ha⟩, _⟩
        have : TokenAccepted E st id := ⟨der, by rw [hspec]; exact hd, ha⟩
        rw [← accept_iff, hres] at this
        simp only [Outcome.ok.injEq, Prod.mk.injEq] at this
        exact h1.1 this.2.1
      · rw [if_neg h1]
        by_cases h2 : status = .continueNeeded
        · rw [if_pos h2]
          simp only [reduceCtorEq, false_iff]
          rintro ⟨_, ⟨der, hd, ha⟩, _⟩
          have : TokenAccepted E st id := ⟨der, by rw [hspec]; exact hd, ha⟩
          rw [← accept_iff, hres] at this
          simp only [Outcome.ok.injEq, Prod.mk.injEq] at this
          rw [h2] at this
          simp at this
        · rw [if_neg h2]
          cases authed with
          | false =>
            simp only [Bool.false_eq_true, if_false, reduceCtorEq, false_iff]
            rintro ⟨_, ⟨der, hd, ha⟩, _⟩
            have : TokenAccepted E st id := ⟨der, by rw [hspec]; exact hd, ha⟩
            rw [← accept_iff, hres] at this
            simp at this
          | true =>
            obtain ⟨i, hid, hst, hacc⟩ := accept_true E st _ _ hres
            subst hid hst
            simp only [if_true]
            obtain ⟨der, hd, ha⟩ := hacc
            by_cases hn : r.session ≠ .noManager ∧ r.newSessionFails = true
            · simp [hn]
            · simp only [hn, if_false, Response.served.injEq, not_false_eq_true, and_true]
              constructor
              · rintro ⟨h1, h2⟩
                subst h1
                exact ⟨h2.symm, der, by rw [← hspec]; exact hd, ha⟩
              · rintro ⟨hf, der', hd', ha'⟩
                rw [← hspec, hd] at hd'
                simp only [Option.some.injEq] at hd'
                subst hd'
                rw [ha] at ha'
                simp only [Option.some.injEq] at ha'
                exact ⟨ha', hf.symm⟩

/-- Every request that is not served is answered with 401 and a Negotiate challenge, or with a 500
    exactly when the application's session store refuses the new session of an accepted request.  The
    wrapper never panics. -/
theorem refused (E : Env) (r : Request) :
    (∃ id fresh, H E r = .served id fresh) ∨ (∃ c, H E r = .unauthorized c) ∨
    (H E r = .serverError ∧ r.session ≠ .noManager ∧ r.newSessionFails = true ∧
      ∃ id, CarriesAccepted E r.authorization id) := by
  unfold H handle
  split
  · exact Or.inl ⟨_, _, rfl⟩
  · cases hh : headerToken E r.authorization with
    | error c => exact Or.inr (Or.inl ⟨c, rfl⟩)
    | ok st =>
      simp only
      have hspec := headerToken_spec E _ st hh
      obtain ⟨res, hres⟩ := accept_total E st
      obtain ⟨authed, status, oid⟩ := res
      rw [hres]
      simp only
      split
      · exact Or.inr (Or.inl ⟨_, rfl⟩)
      · split
        · exact Or.inr (Or.inl ⟨_, rfl⟩)
        · cases authed with
          | false => exact Or.inr (Or.inl ⟨.reject, by simp⟩)
          | true =>
            obtain ⟨i, hid, hst, der, hd, ha⟩ := accept_true E st _ _ hres
            subst hid hst
            simp only [if_true]
            split
            · rename_i hn
              exact Or.inr (Or.inr ⟨rfl, hn.1, hn.2, i, der, by rw [← hspec]; exact hd, ha⟩)
            · exact Or.inl ⟨_, _, rfl⟩

theorem never_crashes (E : Env) (r : Request) : H E r ≠ .crashed := by
  rcases refused E r with ⟨_, _, h⟩ | ⟨_, h⟩ | ⟨h, _⟩ <;> rw [h] <;> simp

/-! ### the unrepaired code -/

def someErr : K5Tok := { oid := oidKRB5, body := .krbError }

/-- before 889555f a KRB-ERROR token verified as true although it holds no AP-REQ -/
theorem v0_krberror_verifies (E : Env) : (k5Verify_v0 E someErr).1 = true ∧ ∀ der, someErr.body ≠ .apReq der := by
  simp [k5Verify_v0, someErr]

/-- before fd07a76 an empty mechanism list crashed AcceptSecContext, and with it the handler -/
theorem v0_empty_mechlist_crashes (E : Env) :
    acceptSecContext_v0 E k5Verify (.init { mechTypes := [], mechToken := none }) = .crash "index out of range [0] with length 0" := rfl

/-! ### non-vacuity: a toy environment in which a concrete header is served -/

def toyId : Identity := { cname := [[117]], crealm := [82], validUntilUs := 7 }
def toyEnv : Env := { apReqParses := fun _ => true, apRepParses := fun _ => true, krbErrParses := fun _ => true,
                      accept := fun der => if der = [0xAA] then some toyId else none }
/-- "Negotiate " ++ base64 (60 0e 06 09 2a 86 48 86 f7 12 01 02 02 01 00 aa) : a bare KRB5 token -/
def toyHeader : Bytes := "Negotiate YA4GCSqGSIb3EgECAgEAqg==".toUTF8.toList

example : H toyEnv { session := .noManager, authorization := toyHeader, newSessionFails := false } = .served toyId true := by
  decide +kernel
example : H toyEnv { session := .getFails, authorization := toyHeader, newSessionFails := true } = .serverError := by
  decide +kernel
example : H toyEnv { session := .noManager, authorization := "Negotiate".toUTF8.toList, newSessionFails := false } = .unauthorized .bare := by
  decide +kernel

end Krb.C03
