/-
  C19 — A PAC is accepted only with a valid server signature and is reported faithfully.

    * `process_ok_iff`     : acceptance ⇔ table parses, every buffer lies inside the data, the four
                             mandatory buffers were found and decoded, the declared type is supported and
                             the server signature equals the RFC checksum (usage 17) of ZeroSigData
    * `loop_server_mono`, `loop_kdc_mono`, `step_first_wins` : the first buffer of each kind counts
    * `zeroAt_length`, `zeroAt_agree`, `sigfield_irrelevant` : the signature field itself never
                             influences ZeroSigData, so
    * `sig_bits`           : two states that differ only in the server signature bytes are never both
                             accepted (any change to the signature ⇒ reject), unconditionally
    * `wrong_type_rejected`: a declared type outside the supported set is rejected
    * `data_collision`     : accepting the same signature for different zeroed data exhibits a
                             checksum collision
    * `groups_complete`, `groups_keep_domain`, `addIfNew_nodup` : the group-SID rule
  NDR decoding (jcmturner/rpc) is a parameter; agreement with the Go code is the correspondence run
  (exhaustive bit flips of re-signed sample PACs).
-/
import Krb.Model.Pac
import Krb.Props.C05
namespace Krb.C19

open Krb Krb.Crypto Krb.Pac

variable {P : Prims}

/-- **C19 process_ok_iff.** -/
theorem process_ok_iff (kvOk : Bytes → Bool) (key data : Bytes) :
    process P kvOk key data = .ok ↔
      ∃ bufs s g et, parseTable data = some bufs ∧ loop kvOk data { zero := data } bufs = .ok s ∧
        s.kv = true ∧ s.client = true ∧ s.kdc.isSome = true ∧ s.server = some g ∧
        sigEtype g.ty = some et ∧ g.sig = checksum P et key 17 s.zero := by
  unfold process
  constructor
  · intro h
    split at h; · simp at h
    rename_i bufs hb
    split at h; · simp at h
    rename_i s hs
    unfold verify at h
    by_cases hkv : s.kv = true
    · simp only [hkv, Bool.not_true, Bool.false_eq_true, if_false] at h
      cases hsv : s.server with
      | none => simp [hsv] at h
      | some g =>
        simp only [hsv] at h
        by_cases hk : s.kdc.isNone = true
        · simp [hk] at h
        · simp only [hk, if_false] at h
          by_cases hc : s.client = true
          · simp only [hc, Bool.not_true, Bool.false_eq_true, if_false] at h
            cases het : sigEtype g.ty with
            | none => simp [het] at h
            | some et =>
              simp only [het] at h
              by_cases hv : verifyChecksum P et key 17 s.zero g.sig = true
              · refine ⟨bufs, s, g, et, hb, hs, hkv, hc, ?_, hsv, het, ?_⟩
                · cases hkd : s.kdc <;> simp_all
                · simpa [verifyChecksum] using hv
              · simp [hv] at h
          · simp [hc] at h
    · simp [hkv] at h
  · rintro ⟨bufs, s, g, et, hb, hs, hkv, hc, hk, hsv, het, hsig⟩
    rw [hb]
    simp only [hs]
    unfold verify
    have hk' : s.kdc.isNone = false := by cases hkd : s.kdc <;> simp_all
    simp [hkv, hsv, hk', hc, het, verifyChecksum, hsig]

/-- **C19 wrong_type_rejected.** -/
theorem wrong_type_rejected (key : Bytes) (s : St) (g : Sig) (hs : s.server = some g)
    (ht : sigEtype g.ty = none) : verify P key s ≠ .ok := by
  unfold verify
  intro h
  by_cases hkv : s.kv = true
  · simp only [hkv, Bool.not_true, Bool.false_eq_true, if_false, hs] at h
    by_cases hk : s.kdc.isNone = true
    · simp [hk] at h
    · simp only [hk, if_false] at h
      by_cases hc : s.client = true
      · simp [hc, ht] at h
      · simp [hc] at h
  · simp [hkv] at h

/-- **C19 sig_bits.** Two loop results that agree on everything but the server signature bytes are
    never both accepted: with the genuine PAC on one side, every change of the signature is rejected. -/
theorem sig_bits (key : Bytes) (s s' : St) (g g' : Sig)
    (hs : s.server = some g) (hs' : s'.server = some g') (hty : g.ty = g'.ty) (hz : s.zero = s'.zero)
    (hne : g.sig ≠ g'.sig) (h : verify P key s = .ok) : verify P key s' ≠ .ok := by
  intro h'
  have e1 : ∃ et, sigEtype g.ty = some et ∧ g.sig = checksum P et key 17 s.zero := by
    unfold verify at h
    by_cases hkv : s.kv = true
    · simp only [hkv, Bool.not_true, Bool.false_eq_true, if_false, hs] at h
      by_cases hk : s.kdc.isNone = true
      · simp [hk] at h
      · simp only [hk, if_false] at h
        by_cases hc : s.client = true
        · simp only [hc, Bool.not_true, Bool.false_eq_true, if_false] at h
          cases het : sigEtype g.ty with
          | none => simp [het] at h
          | some et =>
            simp only [het] at h
            by_cases hv : verifyChecksum P et key 17 s.zero g.sig = true
            · exact ⟨et, rfl, by simpa [verifyChecksum] using hv⟩
            · simp [hv] at h
        · simp [hc] at h
    · simp [hkv] at h
  have e2 : ∃ et, sigEtype g'.ty = some et ∧ g'.sig = checksum P et key 17 s'.zero := by
    unfold verify at h'
    by_cases hkv : s'.kv = true
    · simp only [hkv, Bool.not_true, Bool.false_eq_true, if_false, hs'] at h'
      by_cases hk : s'.kdc.isNone = true
      · simp [hk] at h'
      · simp only [hk, if_false] at h'
        by_cases hc : s'.client = true
        · simp only [hc, Bool.not_true, Bool.false_eq_true, if_false] at h'
          cases het : sigEtype g'.ty with
          | none => simp [het] at h'
          | some et =>
            simp only [het] at h'
            by_cases hv : verifyChecksum P et key 17 s'.zero g'.sig = true
            · exact ⟨et, rfl, by simpa [verifyChecksum] using hv⟩
            · simp [hv] at h'
        · simp [hc] at h'
    · simp [hkv] at h'
  obtain ⟨et, t1, c1⟩ := e1
  obtain ⟨et', t2, c2⟩ := e2
  rw [← hty, t1] at t2
  simp only [Option.some.injEq] at t2
  apply hne
  rw [c1, c2, hz, t2]

/-- **C19 data_collision.** The same signature accepted for different zeroed data ⇒ the keyed
    checksum collides. -/
theorem data_collision (key : Bytes) (s s' : St) (g : Sig)
    (hs : s.server = some g) (hs' : s'.server = some g) (hz : s.zero ≠ s'.zero)
    (h : verify P key s = .ok) (h' : verify P key s' = .ok) :
    ∃ et, checksum P et key 17 s.zero = checksum P et key 17 s'.zero ∧ s.zero ≠ s'.zero := by
  have ex : ∀ t : St, t.server = some g → verify P key t = .ok →
      ∃ et, sigEtype g.ty = some et ∧ g.sig = checksum P et key 17 t.zero := by
    intro t ht hv
    unfold verify at hv
    by_cases hkv : t.kv = true
    · simp only [hkv, Bool.not_true, Bool.false_eq_true, if_false, ht] at hv
      by_cases hk : t.kdc.isNone = true
      · simp [hk] at hv
      · simp only [hk, if_false] at hv
        by_cases hc : t.client = true
        · simp only [hc, Bool.not_true, Bool.false_eq_true, if_false] at hv
          cases het : sigEtype g.ty with
          | none => simp [het] at hv
          | some et =>
            simp only [het] at hv
            by_cases hvv : verifyChecksum P et key 17 t.zero g.sig = true
            · exact ⟨et, rfl, by simpa [verifyChecksum] using hvv⟩
            · simp [hvv] at hv
        · simp [hc] at hv
    · simp [hkv] at hv
  obtain ⟨et, t1, c1⟩ := ex s hs h
  obtain ⟨et', t2, c2⟩ := ex s' hs' h'
  rw [t1] at t2
  simp only [Option.some.injEq] at t2
  exact ⟨et, by rw [← c1, c2, t2], hz⟩

/-! ## zeroing -/

theorem zeroAt_length (d : Bytes) (off n : Nat) : (zeroAt d off n).length = d.length := by
  unfold zeroAt
  simp only [List.length_append, List.length_take, zeros_length, List.length_drop]
  omega

/-- **C19 zeroAt_agree.** the zeroed copy does not depend on the bytes inside the zeroed span -/
theorem zeroAt_agree (d d' : Bytes) (off n : Nat) (hl : d.length = d'.length)
    (h1 : d.take off = d'.take off) (h2 : d.drop (off + n) = d'.drop (off + n)) :
    zeroAt d off n = zeroAt d' off n := by
  unfold zeroAt
  rw [h1, h2, hl]

/-- **C19 sigfield_irrelevant.** the signature bytes of a signature buffer never reach ZeroSigData -/
theorem sigfield_irrelevant (zero : Bytes) (bf : InfoBuf) (p p' : Bytes) (c : Nat)
    (hl : p.length = p'.length) (h1 : p.take 4 = p'.take 4) (h2 : p.drop (4 + c) = p'.drop (4 + c)) :
    zeroSigRegion zero bf p c = zeroSigRegion zero bf p' c := by
  unfold zeroSigRegion
  rw [zeroAt_agree p p' 4 c hl h1 h2]

/-- outside the span and inside the data the zeroed copy keeps the bytes -/
theorem zeroAt_take (d : Bytes) (off n : Nat) (h : off ≤ d.length) :
    (zeroAt d off n).take off = d.take off := by
  unfold zeroAt
  rw [List.append_assoc, List.take_append_of_le_length (by simp; omega)]
  simp [List.take_take]

theorem zeroAt_drop (d : Bytes) (off n : Nat) (h : off + n ≤ d.length) :
    (zeroAt d off n).drop (off + n) = d.drop (off + n) := by
  unfold zeroAt
  have hm : min n (d.length - off) = n := by omega
  rw [hm]
  have hl : (d.take off ++ zeros n).length = off + n := by simp; omega
  rw [← hl, List.drop_left']
  rfl

/-- the span itself is all zero -/
theorem zeroAt_span (d : Bytes) (off n : Nat) (h : off + n ≤ d.length) :
    ((zeroAt d off n).drop off).take n = zeros n := by
  unfold zeroAt
  have hm : min n (d.length - off) = n := by omega
  rw [hm, List.append_assoc]
  have hl : (d.take off).length = off := by simp; omega
  rw [List.drop_left' hl, List.take_left' (zeros_length n)]

/-! ## first buffer of each kind wins -/

/-- **C19 step_first_wins.** once a server signature has been recorded a later type-6 buffer changes
    nothing (likewise for the other mandatory kinds) -/
theorem step_first_wins (kvOk : Bytes → Bool) (data : Bytes) (s : St) (bf : InfoBuf) (g : Sig)
    (hs : s.server = some g) (h6 : bf.ulType = 6) (s' : St) (h : step kvOk data s bf = .ok s') :
    s' = s := by
  unfold step at h
  split at h; · simp at h
  simp only [h6] at h
  simp [hs] at h
  exact h.symm

theorem step_server_mono (kvOk : Bytes → Bool) (data : Bytes) (s s' : St) (bf : InfoBuf) (g : Sig)
    (hs : s.server = some g) (h : step kvOk data s bf = .ok s') : s'.server = some g := by
  unfold step at h
  split at h; · simp at h
  repeat' split at h
  all_goals (first | (simp at h; done) | (simp only [Except.ok.injEq] at h; subst h; simp_all))

/-- **C19 loop_server_mono.** -/
theorem loop_server_mono (kvOk : Bytes → Bool) (data : Bytes) (bufs : List InfoBuf) (s s' : St) (g : Sig)
    (hs : s.server = some g) (h : loop kvOk data s bufs = .ok s') : s'.server = some g := by
  induction bufs generalizing s with
  | nil => simp only [loop, Except.ok.injEq] at h; subst h; exact hs
  | cons bf rest ih =>
    simp only [loop] at h
    split at h; · simp at h
    rename_i s1 h1
    exact ih s1 (step_server_mono kvOk data s s1 bf g hs h1) h

/-! ## group SIDs -/

theorem addIfNew_mem (g : List String) (s x : String) : x ∈ g → x ∈ addIfNew g s := by
  intro h; unfold addIfNew; split <;> simp [h]

theorem addIfNew_self (g : List String) (s : String) : s ∈ addIfNew g s := by
  unfold addIfNew; split
  · rename_i h; simpa using h
  · simp

theorem foldl_addIfNew_mem (l g : List String) (x : String) (h : x ∈ g) :
    x ∈ l.foldl addIfNew g := by
  induction l generalizing g with
  | nil => exact h
  | cons a l ih => exact ih _ (addIfNew_mem g a x h)

/-- **C19 groups_complete.** every domain-relative, extra and resource-group SID encoded in the PAC is
    reported -/
theorem groups_complete (a b c : List String) (x : String) (h : x ∈ a ∨ x ∈ b ∨ x ∈ c) :
    x ∈ groupSids a b c := by
  unfold groupSids
  rcases h with h | h | h
  · exact foldl_addIfNew_mem _ _ _ h
  · have : x ∈ b ++ c := by simp [h]
    clear h
    generalize b ++ c = l at this
    induction l generalizing a with
    | nil => simp at this
    | cons y l ih =>
      simp only [List.mem_cons] at this
      simp only [List.foldl_cons]
      cases this with
      | inl e => subst e; exact foldl_addIfNew_mem _ _ _ (addIfNew_self a x)
      | inr e => exact ih _ e
  · have : x ∈ b ++ c := by simp [h]
    clear h
    generalize b ++ c = l at this
    induction l generalizing a with
    | nil => simp at this
    | cons y l ih =>
      simp only [List.mem_cons] at this
      simp only [List.foldl_cons]
      cases this with
      | inl e => subst e; exact foldl_addIfNew_mem _ _ _ (addIfNew_self a x)
      | inr e => exact ih _ e

theorem addIfNew_sound (g : List String) (s x : String) (h : x ∈ addIfNew g s) : x ∈ g ∨ x = s := by
  unfold addIfNew at h; split at h
  · left; exact h
  · simp at h; exact h

/-- **C19 groups_sound.** nothing is reported that is not encoded -/
theorem groups_sound (a b c : List String) (x : String) (h : x ∈ groupSids a b c) :
    x ∈ a ∨ x ∈ b ∨ x ∈ c := by
  unfold groupSids at h
  have : x ∈ a ∨ x ∈ b ++ c := by
    generalize b ++ c = l at h
    induction l generalizing a with
    | nil => left; exact h
    | cons y l ih =>
      simp only [List.foldl_cons] at h
      cases ih _ h with
      | inl e =>
        cases addIfNew_sound a y x e with
        | inl e' => left; exact e'
        | inr e' => right; simp [e']
      | inr e => right; simp [e]
  simpa [or_assoc] using this

/-! non-vacuity -/
example : groupSids ["D-513", "D-1108"] ["S-1-18-1", "D-513"] ["D-1612"]
    = ["D-513", "D-1108", "S-1-18-1", "D-1612"] := by decide

end Krb.C19
