/-
  C20 — keys and passwords never leak into diagnostics, errors, logs or encodings.

  What a proof can carry here is the structural part: which fields encoding/json writes when one of the
  library's values is dumped is a fact of the type declarations (field names, exportedness, `json:"-"`
  tags), regenerated from the current source by reflection with encoding/json's own rules.  The theorem
  says that no secret-bearing field is among them.  Errors, log lines and wire encodings are decided by the
  secret search of the harness (see the evidence).

  The search itself rests on two facts about renderings, proved here for every secret, every surrounding
  data and every position: a rendering that works byte by byte (hex in either case, decimal lists) shows the
  rendering of a contained secret verbatim (`bytewise_window`, `hex_window`); base64 of any data that
  contains the secret shows, verbatim, the base64 of the secret's aligned core for the residue of its offset
  mod 3 (`window`), and the core misses at most four bytes of the secret (`core_covers`).  So searching each
  output for the three cores' encodings (both alphabets) and for the hex forms cannot miss a secret that was
  written out in one of these renderings.  The cores' encodings the harness searches for are the ones these
  definitions compute (op `b64.cores` of the model driver).
-/
import Krb.Gen.JsonReach
import Krb.Model.B64
namespace Krb.C20
open Krb Krb.B64

/-- fields that hold key material or passwords -/
def secretField (f : String) : Bool :=
  f = "KeyValue" ∨ f = "Password" ∨ f = "password" ∨ f = "Passwd" ∨ f = "Secret"

def leaksSecret (e : String × List String × String) : Bool := e.2.1.any secretField

/-- **json_no_secret_field.** Whatever value of the dumped types is marshalled to JSON — a keytab, an
    encryption key, a cache entry or the whole ticket cache, credentials, a credential cache, tickets and
    KDC replies after decryption, an authenticator, the configuration — no field holding key bytes or a
    password is written. -/
theorem json_no_secret_field : Gen.jsonReach.all (fun e => !leaksSecret e) = true := by
  decide +kernel

/-- the keys are there — as key *types* only (the facts are not vacuous: the walk does reach into the key
    structures) -/
theorem json_reaches_key_types :
    ("keytab.Keytab", ["Entries", "Key", "KeyType"], "int32") ∈ Gen.jsonReach ∧
    ("types.EncryptionKey", ["KeyType"], "int32") ∈ Gen.jsonReach ∧
    ("messages.TGSRep", ["KDCRepFields", "DecryptedEncPart", "Key", "KeyType"], "int32") ∈ Gen.jsonReach := by
  decide +kernel

/-- the detector side of the argument: a field list that does contain a key field is flagged -/
example : leaksSecret ("x", ["Entries", "Key", "KeyValue"], "bytes") = true := by decide

/-! ## what a search for renderings of a secret cannot miss -/

theorem encode_append (url : Bool) (n : Nat) (a b : Bytes) (h : a.length = 3 * n) :
    encode url (a ++ b) = encode url a ++ encode url b := by
  induction n generalizing a with
  | zero =>
    have : a = [] := List.eq_nil_of_length_eq_zero (by omega)
    subst this; simp [encode]
  | succ n ih =>
    match a, h with
    | x :: y :: z :: a', h =>
      have h' : a'.length = 3 * n := by simp at h; omega
      simp only [List.cons_append, encode]
      rw [ih a' h']
      simp
    | [], h => simp at h
    | [_], h => simp at h; omega
    | [_, _], h => simp at h; omega

theorem core_length (r : Nat) (s : Bytes) : ∃ n, (core r s).length = 3 * n := by
  refine ⟨(s.drop ((3 - r % 3) % 3)).length / 3, ?_⟩
  unfold core
  simp only [List.length_take]
  have := Nat.div_mul_le_self (s.drop ((3 - r % 3) % 3)).length 3
  omega

/-- **window.** Wherever a secret sits inside data that is base64-encoded as a whole, the encoding of the
    secret's aligned core (for the offset's residue mod 3) appears verbatim in the output, provided the
    secret is long enough to reach a group boundary. -/
theorem window (url : Bool) (p s q : Bytes) (hlen : 2 ≤ s.length) :
    (encode url (core p.length s)) <:+: (encode url (p ++ s ++ q)) := by
  have hk : (3 - p.length % 3) % 3 ≤ s.length := by omega
  generalize hkd : (3 - p.length % 3) % 3 = k at hk
  have hc : core p.length s = (s.drop k).take (3 * ((s.drop k).length / 3)) := by
    unfold core; rw [hkd]
  generalize hm : 3 * ((s.drop k).length / 3) = m at hc
  -- p ++ s ++ q = (p ++ take k s) ++ core ++ (drop m (drop k s) ++ q)
  have hsplit : p ++ s ++ q = (p ++ s.take k) ++ (core p.length s ++ ((s.drop k).drop m ++ q)) := by
    rw [hc]
    simp only [List.append_assoc]
    rw [← List.append_assoc (List.take m (List.drop k s)), List.take_append_drop,
      ← List.append_assoc (List.take k s), List.take_append_drop]
  have hpre : ∃ n, (p ++ s.take k).length = 3 * n := by
    refine ⟨(p.length + k) / 3, ?_⟩
    simp only [List.length_append, List.length_take, Nat.min_eq_left hk]
    omega
  obtain ⟨n1, h1⟩ := hpre
  obtain ⟨n2, h2⟩ := core_length p.length s
  rw [hsplit, encode_append url n1 _ _ h1, encode_append url n2 _ _ h2]
  exact ⟨encode url (p ++ s.take k), encode url ((s.drop k).drop m ++ q), by simp [List.append_assoc]⟩

/-- the core loses at most two bytes at the front and two at the back -/
theorem core_covers (r : Nat) (s : Bytes) : s.length ≤ (core r s).length + 4 := by
  unfold core
  simp only [List.length_take, List.length_drop]
  omega

example : encode false [77, 97, 110] = "TWFu".toList := by decide
example : encode false [77, 97] = "TWE=".toList := by decide
example : encode false [77] = "TQ==".toList := by decide
example : core 1 [1, 2, 3, 4, 5, 6, 7, 8, 9] = [3, 4, 5, 6, 7, 8] := by decide

/-! hexadecimal and decimal renderings: a rendering that works byte by byte shows a contained secret verbatim -/

/-- **bytewise_window.** every rendering that maps each byte to its own run of characters shows the
    rendering of a contained secret as a contiguous piece of the output (hex in either case is one) -/
theorem bytewise_window (f : UInt8 → List Char) (p s q : Bytes) :
    s.flatMap f <:+: (p ++ s ++ q).flatMap f := by
  refine ⟨p.flatMap f, q.flatMap f, ?_⟩
  simp [List.flatMap_append]

theorem hex_window (upper : Bool) (p s q : Bytes) : hex upper s <:+: hex upper (p ++ s ++ q) :=
  bytewise_window _ p s q

example : hex false [0, 171, 255] = "00abff".toList := by decide

end Krb.C20
