/-
  C20 — keys and passwords never leak into diagnostics, errors, logs or encodings.

  What a proof can carry here is the structural part: which fields encoding/json writes when one of the
  library's values is dumped is a fact of the type declarations (field names, exportedness, `json:"-"`
  tags), regenerated from the current source by reflection with encoding/json's own rules.  The theorem
  says that no secret-bearing field is among them.  Errors, log lines and wire encodings are decided by the
  secret search of the harness (see the evidence).
-/
import Krb.Gen.JsonReach
namespace Krb.C20
open Krb

/-- fields that hold key material or passwords -/
def secretField (f : String) : Bool :=
  f = "KeyValue" ∨ f = "Password" ∨ f = "password" ∨ f = "Passwd" ∨ f = "Secret"

def leaksSecret (e : String × List String × String) : Bool := e.2.1.any secretField

/-- **json_no_secret_field.** Whatever value of the dumped types is marshalled to JSON — a keytab, an
    encryption key, a cache entry or the whole ticket cache, credentials, a credential cache, tickets and
    KDC replies after decryption, an authenticator, the configuration — no field holding key bytes or a
    password is written. -/
theorem json_no_secret_field : Gen.jsonReach.all (fun e => !leaksSecret e) = true := by
  decide +kernel

/-- the keys are there — as key *types* only (the facts are not vacuous: the walk does reach into the key
    structures) -/
theorem json_reaches_key_types :
    ("keytab.Keytab", ["Entries", "Key", "KeyType"], "int32") ∈ Gen.jsonReach ∧
    ("types.EncryptionKey", ["KeyType"], "int32") ∈ Gen.jsonReach ∧
    ("messages.TGSRep", ["KDCRepFields", "DecryptedEncPart", "Key", "KeyType"], "int32") ∈ Gen.jsonReach := by
  decide +kernel

/-- the detector side of the argument: a field list that does contain a key field is flagged -/
example : leaksSecret ("x", ["Entries", "Key", "KeyValue"], "bytes") = true := by decide

end Krb.C20
