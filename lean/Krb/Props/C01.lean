/-
  C01 — Service accepts an AP-REQ exactly when RFC 4120 §3.2.3 says it is valid.

    * `accept_iff_valid` : for every opened request, every settings combination and every clock reading,
                           the decision logic accepts ⇔ the declarative validity predicate holds
    * `identity_sealed`  : on acceptance the name, realm and expiry reported are the ticket's
    * `skew_boundaries`  : acceptance at exactly ±skew, rejection one microsecond beyond, for every skew;
                           a ticket starting exactly `skew` in the future is accepted, one µs later not
    * `realm_mismatch_rejected`, `v0_counterexample` : the repaired code rejects a foreign crealm; the
                           unrepaired logic accepted it and reported the foreign realm
  The opened request (which key decrypts what) is produced by the byte-level acceptor from the RFC codec
  and RFC crypto; its agreement with the Go code on real AP-REQs is the correspondence run.
-/
import Krb.Model.ApReq
namespace Krb.C01

open Krb Krb.ApReq

/-- **C01 accept_iff_valid.** -/
theorem accept_iff_valid (s : Settings) (nowUs : Int) (tkt : Option EncTicketPart)
    (auth : Option Authenticator) (replay : Bool) :
    (∃ cn cr vu, verifyCore s nowUs tkt auth replay = .accept cn cr vu) ↔
      Spec.Valid s nowUs tkt auth replay := by
  unfold verifyCore Spec.Valid
  constructor
  · intro ⟨cn, cr, vu, h⟩
    cases tkt with
    | none => simp at h
    | some t =>
      simp only at h
      by_cases h1 : ¬ StartOk s nowUs t ∨ t.invalid = true
      · simp [h1] at h
      · simp only [h1, if_false] at h
        by_cases h2 : nowUs - t.endUs > s.skewUs
        · simp [h2] at h
        · simp only [h2, if_false] at h
          by_cases h3 : ¬ AddrOk s t
          · simp [h3] at h
          · simp only [h3, if_false] at h
            cases auth with
            | none => simp at h
            | some a =>
              simp only at h
              by_cases h4 : ¬ NameEq a.cname t.cname
              · simp [h4] at h
              · simp only [h4, if_false] at h
                by_cases h5 : a.crealm ≠ t.crealm
                · simp [h5] at h
                · simp only [h5, if_false] at h
                  by_cases h6 : nowUs - a.ctimeUs > s.skewUs ∨ a.ctimeUs - nowUs > s.skewUs
                  · simp [h6] at h
                  · simp only [h6, if_false] at h
                    by_cases h7 : s.requireHostAddr = true ∧ t.caddr = []
                    · simp [h7] at h
                    · simp only [h7, if_false] at h
                      by_cases h8 : replay = true
                      · simp [h8] at h
                      · simp only [h8, if_false] at h
                        by_cases h9 : s.decodePAC = true ∧ t.pac = some false
                        · simp [h9] at h
                        · refine ⟨t, a, rfl, rfl, ?_, ?_, ?_, ?_, ?_, ?_, ?_, ?_, ?_, ?_, h9⟩
                          · exact Classical.byContradiction (fun c => h1 (Or.inl c))
                          · cases hi : t.invalid with
                            | false => rfl
                            | true => exact absurd (Or.inr hi) h1
                          · omega
                          · exact Classical.byContradiction (fun c => h4 c)
                          · exact Classical.byContradiction (fun c => h5 c)
                          · omega
                          · omega
                          · exact Classical.byContradiction (fun c => h3 c)
                          · intro hr hc; exact h7 ⟨hr, hc⟩
                          · cases hr : replay with
                            | false => rfl
                            | true => exact absurd hr h8
  · rintro ⟨t, a, rfl, rfl, v1, v2, v3, v4, v5, v6, v7, v8, v9, v10, v11⟩
    refine ⟨t.cname.comps, t.crealm, t.endUs, ?_⟩
    have h1 : ¬ (¬ StartOk s nowUs t ∨ t.invalid = true) := by
      intro c; cases c with
      | inl c => exact c v1
      | inr c => rw [v2] at c; simp at c
    have h2 : ¬ (nowUs - t.endUs > s.skewUs) := by omega
    have h3 : ¬ ¬ AddrOk s t := fun c => c v8
    have h4 : ¬ ¬ NameEq a.cname t.cname := fun c => c v4
    have h5 : ¬ (a.crealm ≠ t.crealm) := fun c => c v5
    have h6 : ¬ (nowUs - a.ctimeUs > s.skewUs ∨ a.ctimeUs - nowUs > s.skewUs) := by omega
    have h7 : ¬ (s.requireHostAddr = true ∧ t.caddr = []) := fun c => v9 c.1 c.2
    have h8 : ¬ (replay = true) := by rw [v10]; simp
    simp only [h1, h2, h3, h4, h5, h6, h7, h8, v11, if_false]
    simp

/-- **C01 identity_sealed.** -/
theorem identity_sealed (s : Settings) (nowUs : Int) (t : EncTicketPart) (auth : Option Authenticator)
    (replay : Bool) (cn : List Bytes) (cr : Bytes) (vu : Int)
    (h : verifyCore s nowUs (some t) auth replay = .accept cn cr vu) :
    cn = t.cname.comps ∧ cr = t.crealm ∧ vu = t.endUs := by
  unfold verifyCore at h
  simp only at h
  repeat' split at h
  all_goals (first | (simp at h; done) | (simp only [Verdict.accept.injEq] at h; exact ⟨h.1.symm, h.2.1.symm, h.2.2.symm⟩))

/-- a valid request at time 0: used for the boundary statements -/
def baseTicket (endUs : Int) : EncTicketPart :=
  { invalid := false, keyType := 18, key := [1], crealm := [82], cname := { comps := [[117]] },
    startUs := none, endUs := endUs, caddr := [] }
def baseAuth (ct : Int) : Authenticator := { crealm := [82], cname := { comps := [[117]] }, ctimeUs := ct }

/-- **C01 skew_boundaries.** for every skew d ≥ 0 and every clock reading: an authenticator exactly d
    old or d ahead is accepted, one microsecond more is refused; a ticket that ended exactly d ago is
    accepted, one microsecond more is refused; a ticket starting exactly d ahead is accepted, one
    microsecond more is refused -/
theorem skew_boundaries (d now : Int) (hd : 0 ≤ d) :
    (∃ c r v, verifyCore { skewUs := d } now (some (baseTicket now)) (some (baseAuth (now - d))) false = .accept c r v) ∧
    (∃ c r v, verifyCore { skewUs := d } now (some (baseTicket now)) (some (baseAuth (now + d))) false = .accept c r v) ∧
    verifyCore { skewUs := d } now (some (baseTicket now)) (some (baseAuth (now - d - 1))) false = .reject "skew" ∧
    verifyCore { skewUs := d } now (some (baseTicket now)) (some (baseAuth (now + d + 1))) false = .reject "skew" ∧
    (∃ c r v, verifyCore { skewUs := d } now (some (baseTicket (now - d))) (some (baseAuth now)) false = .accept c r v) ∧
    verifyCore { skewUs := d } now (some (baseTicket (now - d - 1))) (some (baseAuth now)) false = .reject "expired" ∧
    (∃ c r v, verifyCore { skewUs := d } now (some { baseTicket now with startUs := some (now + d) }) (some (baseAuth now)) false = .accept c r v) ∧
    verifyCore { skewUs := d } now (some { baseTicket now with startUs := some (now + d + 1) }) (some (baseAuth now)) false = .reject "nyv" := by
  have e1 : ¬ (now - (now - d) > d) := by omega
  have e2 : ¬ (now - d - now > d) := by omega
  have e3 : ¬ (now - (now + d) > d) := by omega
  have e4 : ¬ (now + d - now > d) := by omega
  have e5 : now - (now - d - 1) > d := by omega
  have e6 : now + d + 1 - now > d := by omega
  have e7 : ¬ (now - now > d) := by omega
  have e8 : now - (now - d - 1) > d := by omega
  have e9 : ¬ (now - (now + d + 1) > d) := by omega
  have e10 : ¬ (d < 0) := by omega
  refine ⟨?_, ?_, ?_, ?_, ?_, ?_, ?_, ?_⟩ <;>
    simp [verifyCore, baseTicket, baseAuth, NameEq, StartOk, AddrOk, e1, e2, e3, e4, e5, e6, e7, e8, e9, e10] <;>
    (try omega)

/-- **C01 realm_mismatch_rejected.** -/
theorem realm_mismatch_rejected (s : Settings) (now : Int) (t : EncTicketPart) (a : Authenticator)
    (replay : Bool) (h : a.crealm ≠ t.crealm) :
    ∀ c r v, verifyCore s now (some t) (some a) replay ≠ .accept c r v := by
  intro c r v hacc
  have := (accept_iff_valid s now (some t) (some a) replay).mp ⟨c, r, v, hacc⟩
  obtain ⟨t', a', ht, ha, _, _, _, _, hcr, _⟩ := this
  simp only [Option.some.injEq] at ht ha
  subst ht ha
  exact h hcr

/-- **C01 v0_counterexample.** the unrepaired logic accepted an authenticator naming another realm and
    reported that realm to the application -/
theorem v0_counterexample :
    verifyCore_v0 { skewUs := 300000000 } 0 (some (baseTicket 1000)) (some { baseAuth 0 with crealm := [69] }) false
      = .accept [[117]] [69] 1000 := by decide

/-! non-vacuity -/
example : Spec.Valid { skewUs := 300000000 } 0 (some (baseTicket 1000)) (some (baseAuth 5)) false := by
  refine ⟨baseTicket 1000, baseAuth 5, rfl, rfl, ?_, rfl, ?_, rfl, rfl, ?_, ?_, ?_, ?_, rfl, ?_⟩ <;>
    simp [baseTicket, baseAuth, StartOk, AddrOk]

end Krb.C01
