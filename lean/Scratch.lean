import Krb.Asn1.TypedProofs
open Krb Krb.Asn1
#check @encInt.width
#print encInt.width
