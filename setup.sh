#!/bin/sh
# Offline set-up after a fresh restore: build the Lean project (theorems + compiled model driver) and
# warm the Go build of the harness. Everything comes from files on disk.
set -e
cd "$(dirname "$0")"
export GOFLAGS=-mod=mod GOPROXY=off GOSUMDB=off GOTOOLCHAIN=local
mkdir -p .build evidence replays
cp /repo/v8/go.sum harness/go.sum
(cd harness && go1.26 test -c -tags verif -o ../.build/harness.test . )
VERIF_GEN_DIR="$PWD/lean/Krb/Gen" ./.build/harness.test -test.run '^TestGenFacts$' -test.count=1 >/dev/null
(cd lean && lake build Krb kmodel Krb.AuditCmd)
echo setup-ok
